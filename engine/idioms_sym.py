"""Constructs run SYMBOLICALLY: `validate.symbolic_idioms` explores each function with symbolic arguments over a small
domain, then checks for every concrete argument tuple of the domain that the path(s) covering it give CPython's result.
This validates the parts of the interpreter that concrete mode never reaches: if-merging, guards, forks, summaries of
conditional expressions, aliasing of mutable objects across merges."""
import enum


class Seat(enum.Enum):
    N = 1
    E = 2
    S = 3
    W = 4

    @property
    def nxt(self):
        return Seat(self.value % 4 + 1)

    @property
    def partner(self):
        return Seat((self.value + 1) % 4 + 1)

    def is_partner(self, o):
        return self is o or self.partner is o


class Box:
    def __init__(self, v):
        self.v = v
        self.log = []

    def bump(self, k):
        self.v += k
        self.log.append(k)
        return self.v


def merge_assign(x, c):
    if x > 1:
        y = 10
    elif c:
        y = 20
    else:
        y = x
    z = y + 1 if c else y - 1
    return y, z


def early_return(x):
    if x < 0:
        return 'neg'
    if x == 0:
        return 'zero'
    for i in range(3):
        if i == x:
            return 'small'
    return 'big'


def alias_condexp(c, x):
    a, b = [1], [2]
    h = a if c else b
    h.append(x)
    return a, b


def alias_objects(c, x):
    p, q = Box(1), Box(2)
    t = p if c else q
    t.bump(x)
    u = t
    u.v += 1
    return p.v, q.v, p.log, q.log


def guarded_mutation(c, x):
    o = Box(0)
    if c:
        o.bump(x)
    if x > 1:
        o.v *= 2
    return o.v, len(o.log)


def sym_loop(x):
    t = 0
    for i in range(x):
        t += i
        if t > 2:
            break
    n = 0
    while n * n < x:
        n += 1
    return t, n


def loop_continue(x):
    out = []
    for i in range(4):
        if i == x:
            continue
        if i > x + 1:
            break
        out.append(i)
    return out


def short_circuit(x, c):
    seen = []

    def note(v):
        seen.append(v)
        return v
    r = (x > 1 and note(x)) or (c and note(-1)) or 0
    return r, seen


def chained_compare(x, y):
    return 0 < x < y, x <= y <= 2, x == y == 1, (x < y) != (y < x)


def aggregates(x, y):
    return min(x, y), max(x, y, 1), abs(x - y), sum([x, y, 1]), x // 2, x % 3, -x, divmod(y, 2), x * y, bool(x), not y


def comprehension_filters(x):
    return [i for i in range(4) if i < x], sum(1 for i in range(4) if i != x), any(i == x for i in range(4)), \
        all(i <= x for i in range(3)), {i: i * x for i in range(3) if i != x}, len({i % 2 for i in range(x)})


def table_lookup(k):
    t = {0: 'a', 1: 'b', 2: 'c'}
    xs = ['p', 'q', 'r', 's']
    return t.get(k, 'none'), xs[k], k in t, xs[-1 - k] if k < 4 else None, xs[:k], xs[k:]


def raise_and_catch(x):
    log = []
    try:
        if x == 1:
            raise ValueError('one')
        if x == 2:
            raise KeyError('two')
        log.append('body')
    except ValueError:
        log.append('value')
    finally:
        log.append('finally')
    if x == 3:
        raise IndexError('three')
    return log


def enum_props(a, b):
    return a.nxt, a.partner, a.is_partner(b), a is b, a.nxt is b, (a.value + b.value) % 4, a.name if a is b else b.name


def enum_dict(a, x):
    d = {s: 0 for s in Seat}
    d[a] += x
    d[a.partner] += 1
    return [d[s] for s in Seat], d[a.nxt]


def closure_sym(x):
    def add(k):
        return x + k
    fs = [lambda v, k=k: v * k + x for k in range(3)]
    return add(1), [f(2) for f in fs]


def nested_merge(x, y):
    r = 0
    if x > 0:
        if y > 0:
            r = 1
        else:
            r = 2
        r += 10
    else:
        if y > 1:
            return -1
    return r


def string_build(x, c):
    s = 'ab' if c else 'cd'
    t = s + ('x' if x > 1 else 'y')
    return t, t.upper(), t[0], t == 'abx', t.startswith('a'), 'b' in t, len(t)


def tuple_merge(x, c):
    p = (x, 1) if c else (2, x)
    a, b = p
    return a - b, p[0], p == (2, 2)


def walrus_sym(x):
    if (y := x * 2) > 3:
        return y
    return -y


def list_mutation_under_guard(x):
    xs = [0, 0, 0]
    if x < 3:
        xs[x] = 1
    ys = []
    if x > 1:
        ys.append(x)
    ys.append(9)
    return xs, ys, len(ys)


def optional_value(x):
    v = None
    if x > 1:
        v = x
    if v is None:
        return 'none'
    return v + 1


INT = ('int', 0, 4)
SMALL = ('int', 0, 3)
BOOL = ('bool',)
SEAT = ('enum', Seat)

SYM_CASES = [
    (merge_assign, [INT, BOOL]), (early_return, [('int', -1, 4)]), (alias_condexp, [BOOL, INT]), (alias_objects, [BOOL, INT]),
    (guarded_mutation, [BOOL, INT]), (sym_loop, [INT]), (loop_continue, [INT]), (short_circuit, [INT, BOOL]),
    (chained_compare, [SMALL, SMALL]), (aggregates, [SMALL, ('int', 1, 3)]), (comprehension_filters, [INT]),
    (table_lookup, [SMALL]), (raise_and_catch, [INT]), (enum_props, [SEAT, SEAT]), (enum_dict, [SEAT, SMALL]),
    (closure_sym, [SMALL]), (nested_merge, [('int', -1, 2), ('int', -1, 2)]), (string_build, [INT, BOOL]),
    (tuple_merge, [SMALL, BOOL]), (walrus_sym, [INT]), (list_mutation_under_guard, [INT]), (optional_value, [INT]),
]
