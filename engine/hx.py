"""Helpers for harnesses: run one symbolic exploration as a case and collect its verdicts."""
import time

import z3

from . import common, symx
from .common import CaseResult


def explore_case(path_fn, engine_opts=None, setup=None, max_cex=1, want_samples=2):
    """path_fn(eng) -> dict(outcome=str, checks=[(label, z3 Bool that must hold)], cex=callable(model)->dict,
    sample=optional JSON-able description).  Every path: one query  pc ∧ ¬(∧ checks)."""
    common.setup_path()
    eng = symx.Engine(**(engine_opts or {}))
    if setup:
        setup(eng)
    res = CaseResult('')
    t0 = time.time()
    found = [0, 0]

    def one(eng):
        if eng.stats.get('restarts', 0) != found[1]:
            found[0], found[1] = 0, eng.stats.get('restarts', 0)     # the exploration started over: so does the count
        out = path_fn(eng)
        # a finished path must have a satisfiable path condition; otherwise the interpreter lost track of its own
        # decisions and every verdict on this path would be vacuous
        if eng.check() != z3.sat:
            raise symx.Unsupported('internal: finished path has an unsatisfiable path condition')
        checks = [(l, c) for l, c in out.get('checks', []) if c is not True]
        verdict = 'unsat'
        failing = []
        cex = None
        falses = [l for l, c in checks if c is False]
        checks = [(l, (z3.BoolVal(False) if c is False else c)) for l, c in checks]
        if checks:
            neg = z3.Or([z3.Not(c) for _, c in checks])
            r = eng.check(neg)
            if r == z3.sat:
                m = eng.solver.model()
                for l, c in checks:
                    if z3.is_false(m.eval(c, model_completion=True)):
                        failing.append(l)
                verdict = 'sat'
                if found[0] >= max_cex:
                    # enough replayable counterexamples are being reported: no history synthesis for further failing paths
                    cex = {'note': 'further failing path (not refined)'}
                elif out.get('refine'):
                    # counterexample to induction: ask for a pre-state reachable through the public API
                    cex = out['refine'](eng, neg, m)
                    if cex is None:
                        verdict = 'unreached'
                        cex = {'note': 'pre-state not reachable within the synthesis bound', 'labels': failing}
                    else:
                        found[0] += 1
                else:
                    cex = out['cex'](m) if out.get('cex') else {}
                    found[0] += 1
                cex['failing_checks'] = failing
                cex['outcome'] = out.get('outcome')
        sample = out.get('sample')
        return out.get('outcome', 'path'), verdict, cex, sample

    try:
        paths = eng.explore(one)
    except symx.UnwindingAssertion as e:
        res.status = 'cex' if False else 'inconclusive'
        res.detail = 'unwinding assertion: ' + str(e)
        res.stats = dict(eng.stats)
        return res
    unreached = []
    for outcome, verdict, cex, sample in paths:
        res.outcomes[outcome] = res.outcomes.get(outcome, 0) + 1
        if verdict == 'sat' and len(res.cex) < max_cex:
            res.cex.append(cex)
        if verdict == 'unreached':
            unreached.append(cex)
        if sample is not None and len(res.samples) < want_samples:
            res.samples.append({'outcome': outcome, 'path': sample})
    res.status = 'cex' if res.cex else ('inconclusive' if unreached else 'ok')
    res.stats = dict(eng.stats)
    res.lines = sorted(f'{f.split("/")[-1]}:{l}' for f, l in eng.lines)
    res.detail = f'{len(paths)} paths, outcomes {res.outcomes}'
    if unreached and not res.cex:
        res.detail = ('counterexample to induction whose pre-state could not be reached through the public API '
                      f'within the synthesis bound (invariant too weak or deep violation): {unreached[0]}')
    return res


def mval(m, z):
    v = m.eval(z, model_completion=True)
    if z3.is_int_value(v):
        return v.as_long()
    if z3.is_true(v):
        return True
    if z3.is_false(v):
        return False
    return str(v)


def plain_query_case(build):
    """a case that is a direct z3 query (no path exploration): build() -> dict(queries=[(label, solver_assertions,
    expect 'unsat'|'sat')], ...)"""
    common.setup_path()
    res = CaseResult('')
    stats = dict(queries=0, solver_s=0.0, sat=0, unsat=0, unknown=0, paths=0)
    for label, assertions, expect, cexfn in build():
        s = z3.Solver()
        s.set('timeout', 300000)
        s.add(assertions)
        t = time.time()
        r = s.check()
        stats['queries'] += 1
        stats['solver_s'] += time.time() - t
        stats[str(r)] += 1
        stats['paths'] += 1
        res.outcomes[label] = 1
        if r == z3.unknown:
            res.status = 'inconclusive'
            res.detail += f'{label}: unknown; '
        elif str(r) != expect:
            if expect == 'unsat':
                c = cexfn(s.model()) if cexfn else {}
                c['failing_checks'] = [label]
                res.cex.append(c)
                res.status = 'cex'
            else:
                res.status = 'inconclusive'
                res.detail += f'{label}: reachability twin is {r} (vacuous harness); '
    res.stats = stats
    return res
