"""Loop cutting: execute ONE iteration of a loop of a repository function, taken from its source, with the loop's
local variables supplied (havocked) by the harness.  The loop is located structurally (by the shape of its header), so a
changed source is a changed encoding; if the loop cannot be found the harness stops (inconclusive)."""
import ast
import enum

import z3

from . import symx


def find_loops(fn):
    node = symx.func_ast(fn)
    return [n for n in ast.walk(node) if isinstance(n, (ast.For, ast.While))]


def find_for(fn, target, iter_src):
    """the unique `for <target> in <iter_src>` loop of fn (iter_src compared on the unparsed text)"""
    hits = [n for n in find_loops(fn) if isinstance(n, ast.For) and isinstance(n.target, ast.Name) and n.target.id == target
            and ast.unparse(n.iter).replace(' ', '') == iter_src.replace(' ', '')]
    if len(hits) != 1:
        raise symx.Unsupported(f'loop `for {target} in {iter_src}` not found exactly once in {fn.__qualname__} ({len(hits)} hits)')
    return hits[0]


def find_while(fn, test_src):
    hits = [n for n in find_loops(fn) if isinstance(n, ast.While) and ast.unparse(n.test).replace(' ', '') == test_src.replace(' ', '')]
    if len(hits) != 1:
        raise symx.Unsupported(f'loop `while {test_src}` not found exactly once in {fn.__qualname__} ({len(hits)} hits)')
    return hits[0]


def _assigned_names(stmts):
    out = {}
    for s in stmts:
        for n in ast.walk(s):
            if isinstance(n, ast.Name) and isinstance(n.ctx, ast.Store):
                out[n.id] = out.get(n.id, 0) + 1
    return out


def _preamble_defs(fn, loop):
    """`name -> rhs expression` for the names that the function assigns exactly once, by a top-level statement before its
    first loop (`x = e`, or `x, y = e1, e2`), and nowhere else (so they are constant through the loop)"""
    node = symx.func_ast(fn)
    counts = _assigned_names(node.body)
    pre = []
    for s in node.body:
        if any(isinstance(n, (ast.For, ast.While)) for n in ast.walk(s)):
            break
        pre.append(s)
    defs = {}
    for s in pre:
        if not isinstance(s, ast.Assign) or len(s.targets) != 1:
            continue
        t, v = s.targets[0], s.value
        pairs = []
        if isinstance(t, ast.Name):
            pairs = [(t, v)]
        elif isinstance(t, ast.Tuple) and isinstance(v, ast.Tuple) and len(t.elts) == len(v.elts) \
                and all(isinstance(x, ast.Name) for x in t.elts):
            pairs = list(zip(t.elts, v.elts))
        for tt, vv in pairs:
            if counts.get(tt.id) == 1:
                defs[tt.id] = vv
    return defs


def _pure_rhs(e):
    """attribute / name / subscript / constant / conditional / comparison reads only (properties are attribute reads)"""
    return all(isinstance(n, (ast.Attribute, ast.Name, ast.Subscript, ast.Constant, ast.IfExp, ast.Compare, ast.Load,
                              ast.Is, ast.IsNot, ast.Eq, ast.NotEq, ast.BoolOp, ast.And, ast.Or, ast.Not, ast.UnaryOp))
               for n in ast.walk(e))


def derive_locals(eng, fn, stmts, locs):
    """Locals that the loop body reads, that the harness does not supply and that the function sets once before its loops
    from a pure read of the state (`declarer = playing_env.declarer`, `seat = self.player.formal_name`): their value at
    the start of the iteration is that read evaluated on the iteration's start state.  This is exact if the read is
    stable from the preamble to the iteration; `check_derived` re-evaluates it after the iteration and the harness stops
    (inconclusive) if the iteration changed it."""
    fn = getattr(fn, '__func__', fn)
    defs = _preamble_defs(fn, None)
    need = set()
    for s in stmts:
        for n in ast.walk(s):
            if isinstance(n, ast.Name) and isinstance(n.ctx, ast.Load):
                need.add(n.id)
    derived = {}
    progress = True
    while progress:
        progress = False
        for name in sorted(need):
            if name in locs or name in derived or name not in defs or not _pure_rhs(defs[name]):
                continue
            deps = {n.id for n in ast.walk(defs[name]) if isinstance(n, ast.Name)}
            missing = [d for d in deps if d in defs and d not in locs and d not in derived]
            if missing:
                need.update(missing)
                progress = True
                continue
            frame = symx.Frame(eng, fn, {**locs, **derived})
            derived[name] = frame.ev(defs[name])
            progress = True
    return derived, defs


def _same(eng, a, b):
    if a is b:
        return True
    if isinstance(a, (symx.SEnum, symx.SInt, symx.SBool)) or isinstance(b, (symx.SEnum, symx.SInt, symx.SBool)):
        try:
            za, zb = (symx.zenum(x) if isinstance(x, (symx.SEnum, enum.Enum)) else symx.zint(x) for x in (a, b))
        except symx.Unsupported:
            return False
        d = z3.simplify(za != zb)
        if z3.is_false(d):
            return True
        s = z3.Solver()
        s.add(*eng.pc)
        s.add(d)
        return str(s.check()) == 'unsat'
    if isinstance(a, symx.SStr) or isinstance(b, symx.SStr):
        from . import sstr
        e = sstr.eq(a, b)
        if isinstance(e, bool):
            return e
        s = z3.Solver()
        s.add(*eng.pc)
        s.add(z3.Not(e))
        return str(s.check()) == 'unsat'
    if isinstance(a, symx.Sym) or isinstance(b, symx.Sym):
        return False
    return type(a) is type(b) and a == b


def check_derived(eng, fn, derived, defs, locs):
    fn = getattr(fn, '__func__', fn)
    for name, v in derived.items():
        frame = symx.Frame(eng, fn, {**locs, **derived})
        v2 = frame.ev(defs[name])
        if not _same(eng, v, v2):
            raise symx.Unsupported(f'local `{name}` of {fn.__qualname__} (set before the loop) is not stable through the iteration')


def run_stmts(eng, fn, stmts, locs):
    """the statements in a frame of fn with the given locals (plus derived preamble locals); returns
    ('normal'|'continue'|'break', frame)"""
    fn = getattr(fn, '__func__', fn)
    derived, defs = derive_locals(eng, fn, stmts, locs)
    frame = symx.Frame(eng, fn, {**locs, **derived})
    st = 'normal'
    try:
        frame.exec_block(stmts)
    except symx.ContinueEx:
        st = 'continue'
    except symx.BreakEx:
        st = 'break'
    check_derived(eng, fn, derived, defs, {k: frame.locs[k] for k in locs if k in frame.locs})
    return st, frame


def run_body(eng, fn, loop, locs):
    """one iteration of the loop body in a frame of fn with the given locals; returns ('normal'|'continue'|'break', frame)"""
    return run_stmts(eng, fn, loop.body, locs)


def find_nest(fn, outer, inner):
    """The loop nest that enumerates (outer, inner): either `for <outer> in ..: <prefix>; for <inner> in ..: <body>` or a
    single loop over both (`for outer, inner in itertools.product(..)`).  Returns (prefix, body, form): the statements
    of the outer body before the inner loop (they run when the inner loop starts) and the inner body."""
    loops = [n for n in find_loops(fn) if isinstance(n, ast.For)]
    flat = [n for n in loops if isinstance(n.target, ast.Tuple) and [getattr(x, 'id', None) for x in n.target.elts] == [outer, inner]]
    nested = []
    for o in loops:
        if isinstance(o.target, ast.Name) and o.target.id == outer:
            for k, s in enumerate(o.body):
                if isinstance(s, ast.For) and isinstance(s.target, ast.Name) and s.target.id == inner:
                    if any(isinstance(x, (ast.For, ast.While)) for y in o.body[:k] + o.body[k + 1:] for x in ast.walk(y)):
                        continue
                    if o.body[k + 1:]:
                        continue          # statements after the inner loop: not the shape this cut handles
                    nested.append((o.body[:k], s.body))
    if len(flat) + len(nested) != 1:
        raise symx.Unsupported(f'loop nest over ({outer}, {inner}) not found exactly once in {fn.__qualname__} '
                               f'({len(nested)} nested, {len(flat)} flattened)')
    if flat:
        return [], flat[0].body, 'flattened'
    return nested[0][0], nested[0][1], 'nested'


def free_names(loop):
    """names read in the loop body (to document what the harness must supply)"""
    out = set()
    for n in ast.walk(loop):
        if isinstance(n, ast.Name) and isinstance(n.ctx, ast.Load):
            out.add(n.id)
    return sorted(out)
