"""Loop cutting: execute ONE iteration of a loop of a repository function, taken from its source, with the loop's
local variables supplied (havocked) by the harness.  The loop is located structurally (by the shape of its header), so a
changed source is a changed encoding; if the loop cannot be found the harness stops (inconclusive)."""
import ast

from . import symx


def find_loops(fn):
    node = symx.func_ast(fn)
    return [n for n in ast.walk(node) if isinstance(n, (ast.For, ast.While))]


def find_for(fn, target, iter_src):
    """the unique `for <target> in <iter_src>` loop of fn (iter_src compared on the unparsed text)"""
    hits = [n for n in find_loops(fn) if isinstance(n, ast.For) and isinstance(n.target, ast.Name) and n.target.id == target
            and ast.unparse(n.iter).replace(' ', '') == iter_src.replace(' ', '')]
    if len(hits) != 1:
        raise symx.Unsupported(f'loop `for {target} in {iter_src}` not found exactly once in {fn.__qualname__} ({len(hits)} hits)')
    return hits[0]


def find_while(fn, test_src):
    hits = [n for n in find_loops(fn) if isinstance(n, ast.While) and ast.unparse(n.test).replace(' ', '') == test_src.replace(' ', '')]
    if len(hits) != 1:
        raise symx.Unsupported(f'loop `while {test_src}` not found exactly once in {fn.__qualname__} ({len(hits)} hits)')
    return hits[0]


def run_body(eng, fn, loop, locs):
    """one iteration of the loop body in a frame of fn with the given locals; returns ('normal'|'continue'|'break', frame)"""
    fn = getattr(fn, '__func__', fn)
    frame = symx.Frame(eng, fn, dict(locs))
    try:
        frame.exec_block(loop.body)
    except symx.ContinueEx:
        return 'continue', frame
    except symx.BreakEx:
        return 'break', frame
    return 'normal', frame


def free_names(loop):
    """names read in the loop body (to document what the harness must supply)"""
    out = set()
    for n in ast.walk(loop):
        if isinstance(n, ast.Name) and isinstance(n.ctx, ast.Load):
            out.add(n.id)
    return sorted(out)
