"""Decomposition of a recorded session into SEGMENTS between full synchronisations, and one stand-alone SMT deadlock query per
segment (used by C09 to speak about sessions of any number of boards).

Why a deadlock lies inside one segment.  The table manager's five threads (main + four seats) all pass every generation of
the 5-party barrier.  Generation g completes only when all five have arrived, so if one of them has left generation g, all
have arrived at it and may leave: in a deadlock state (everybody parked at a DISABLED operation or finished) all five are
between the same two consecutive generations.  A client in a deadlock state is parked at a recv whose send has not been
executed, i.e. it has consumed everything its seat thread sent: its position is determined by its seat thread's position.
Hence every deadlock state of a session is a deadlock state of exactly one segment, and the enabledness of the operations
of a segment depends only on the operations of that segment and on what is PENDING in the channels at its start.

A segment starts after the 'ready for cards' barrier of a board (prologue: at thread start) and ends with the next board's
'ready for cards' barrier (last segment: with the end of all threads).  What is pending at a boundary (messages put before
the boundary and taken after it) is computed from the traces and must be the same at every board boundary (checked): then
the segment of a board is a function of that board, the players' decisions on it and whether it is the last one - not of
the boards before it - and a session of ANY length is a concatenation of such segments.
"""
import collections
import hashlib
import json

from . import po

PRODUCE = {'q_put': 'q', 'send': 's'}
CONSUME = {'q_get': 'q', 'recv': 's'}


def barrier_generations(traces):
    """-> (barrier obj, server thread names, {thread: [(arrive pos, leave pos)]}) for the barrier every party of which is a
    recorded thread; None if there is no such barrier"""
    per = collections.defaultdict(lambda: collections.defaultdict(list))
    parties = {}
    for t, ops in traces.items():
        for j, o in enumerate(ops):
            if o['kind'] == 'bar_arrive':
                per[o['obj']][t].append([j, None])
                parties[o['obj']] = o['parties']
            elif o['kind'] == 'bar_leave':
                per[o['obj']][t][-1][1] = j
    for obj, users in per.items():
        if len(users) == parties[obj] and len({len(v) for v in users.values()}) == 1 and all(x[1] is not None for v in users.values() for x in v):
            return obj, sorted(users), {t: [tuple(x) for x in v] for t, v in users.items()}
    return None


def _channel_peers(traces):
    """{client thread: (seat thread, c2s obj, s2c obj)} from the socket operations"""
    prod, cons = {}, {}
    for t, ops in traces.items():
        for o in ops:
            if o['kind'] == 'send':
                prod[o['obj']] = t
            elif o['kind'] == 'recv':
                cons[o['obj']] = t
    out = {}
    for obj, p in prod.items():
        if obj.endswith(':c2s') and obj in cons:
            s2c = obj[:-4] + ':s2c'
            out[p] = (cons[obj], obj, s2c)
    return out


def boundaries(traces):
    """positions (index of the first operation AFTER the boundary) of every thread at every board boundary.
    -> (list of {thread: position}, problems)"""
    bg = barrier_generations(traces)
    if bg is None:
        return None, ['no barrier that every server thread passes the same number of times']
    obj, servers, gens = bg
    ngen = len(gens[servers[0]])
    if ngen < 3 or ngen % 2 == 0:
        return None, [f'{ngen} barrier generations: not 1 + 2 * boards']
    nboards = (ngen - 1) // 2
    peers = _channel_peers(traces)
    cuts = []
    for b in range(nboards):
        g = 2 + 2 * b
        cut = {t: gens[t][g][1] + 1 for t in servers}
        for cl, (seat, c2s, s2c) in peers.items():
            if seat not in cut:
                continue
            ns = sum(1 for o in traces[seat][:cut[seat]] if o['kind'] == 'send' and o['obj'] == s2c)
            nr = sum(1 for o in traces[seat][:cut[seat]] if o['kind'] == 'recv' and o['obj'] == c2s and not o.get('eof'))
            pos, seen_r, seen_s = 0, 0, 0
            for j, o in enumerate(traces[cl]):
                if o['kind'] == 'recv' and o['obj'] == s2c and seen_r < ns:
                    seen_r += 1
                    pos = max(pos, j + 1)
                elif o['kind'] == 'send' and o['obj'] == c2s and seen_s < nr:
                    seen_s += 1
                    pos = max(pos, j + 1)
            cut[cl] = pos
        for t in traces:
            cut.setdefault(t, None)
        cuts.append(cut)
    return cuts, []


def pending_at(traces, cut):
    """{channel: number of items put/sent before the boundary and not yet taken before it}"""
    a, b = collections.Counter(), collections.Counter()
    for t, ops in traces.items():
        if cut.get(t) is None:
            continue
        for o in ops[:cut[t]]:
            if o['kind'] in PRODUCE:
                a[o['obj']] += 1
            elif o['kind'] in CONSUME and not o.get('eof'):
                b[o['obj']] += 1
    return {ch: a[ch] - b[ch] for ch in sorted(set(a) | set(b)) if a[ch] != b[ch]}, b, a


def segments(traces):
    """-> (list of segment dicts {name, traces, pre, pending}, problems)"""
    cuts, problems = boundaries(traces)
    if cuts is None:
        return [], problems
    ends = {t: len(ops) for t, ops in traces.items()}
    marks = [{t: 0 for t in traces}] + cuts + [ends]
    # threads that do not take part in the decomposition (no position at a boundary) stay whole in the first segment
    out = []
    for i in range(len(marks) - 1):
        lo, hi = marks[i], marks[i + 1]
        name = 'prologue + deal of board 1' if i == 0 else (f'board {i}' + (' (last) + end of session' if i == len(marks) - 2 else f' + deal of board {i + 1}'))
        pend, taken, _ = pending_at(traces, {t: (lo[t] if lo.get(t) is not None else 0) for t in traces}) if i else ({}, collections.Counter(), None)
        if any(v < 0 for v in pend.values()):
            problems.append(f'{name}: more taken than put before the boundary on {[k for k, v in pend.items() if v < 0]}')
            continue
        sub, pre = {}, []
        for t, ops in traces.items():
            l = lo[t] if lo.get(t) is not None else (0 if i == 0 else ends[t])
            h = hi[t] if hi.get(t) is not None else (ends[t] if i == 0 else ends[t])
            if lo.get(t) is None and i > 0:
                l = h = ends[t]
            win = []
            for o in ops[l:h]:
                o2 = dict(o)
                if o['kind'] in PRODUCE or (o['kind'] in CONSUME and not o.get('eof')):
                    o2['k'] = o['k'] - taken[o['obj']]
                win.append(o2)
            sub[t] = win
            # what this thread produced before the boundary and nobody has taken yet; closes before the boundary
            if i:
                for o in ops[:l]:
                    if o['kind'] in PRODUCE and o['k'] >= taken[o['obj']]:
                        pre.append(dict(o, k=o['k'] - taken[o['obj']]))
                    elif o['kind'] == 'close':
                        pre.append(dict(o))
        out.append(dict(name=name, traces=sub, pre=pre, pending=pend, index=i, last=i == len(marks) - 2))
    return out, problems


def signature(seg):
    """what the stand-alone query of a segment depends on: per thread the sequence of synchronisation operations (kind,
    object, rebased index, blocking mode, parties) and the pending items - no message contents"""
    body = {t: [(o['kind'], o['obj'], o.get('k'), bool(o.get('nonblock')), o.get('parties'), bool(o.get('eof')), o.get('maxsize'))
                for o in ops if o['kind'] != 'th_alive'] for t, ops in seg['traces'].items()}
    pre = sorted((o['kind'], o['obj'], o.get('k')) for o in seg['pre'])
    return hashlib.sha256(json.dumps([body, pre], sort_keys=True, default=str).encode()).hexdigest()[:16]


def analyse(seg, timeout_ms=300000):
    """stand-alone queries of one segment: deadlock (must be unsat), completion twin (must be sat)"""
    P = po.PO(seg['traces'], pre=seg['pre'])
    r_dead, m, t1 = P.check(P.deadlock_query(), timeout_ms)
    r_comp, _, t2 = P.check(P.completion_query(), timeout_ms)
    r_nb, t3 = None, 0.0
    if P.nonblocking_ops():
        r_nb, _, t3 = P.check(P.nonblock_fail_query(), timeout_ms)
    return dict(deadlock=r_dead, completion=r_comp, nonblock_fail=r_nb, solver_s=round(t1 + t2 + t3, 3),
                ops=sum(len(v) for v in seg['traces'].values()), constraints=len(P.cons),
                cut=P.describe_cut(P.schedule_from(m)[1]) if m is not None else None)
