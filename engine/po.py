"""Every interleaving of recorded per-thread synchronisation traces as ONE SMT problem (partial-order encoding).

For every operation e an integer O(e) (its position in the interleaving); for every thread t a cut P(t) in [0, len(t)]
(e executed  <=>  index(e) < P(thread(e))).  Constraints: program order; thread start; an executed blocking operation
was enabled when it ran.  Queries: deadlock (every thread finished or parked at a blocking operation that is disabled in
the state reached by the executed prefix, and somebody unfinished), completion twin, race.
"""
import collections
import time

import z3

BLOCKING = {'ev_wait', 'q_get', 'bar_leave', 'th_join', 'recv', 'accept', 'connect'}


class PO:
    INIT = '_init'

    def __init__(self, traces, drop=None, pre=None):
        """traces: {thread: [op dict]}; drop: optional (thread, idx) of an operation that is deleted (seeded bug);
        pre: operations that have happened before everything else (items pending in channels when a segment starts)"""
        self.tr = {}
        for t, ops in traces.items():
            lst = [dict(o) for o in ops]
            if drop and drop[0] == t:
                lst = [o for o in lst if o['idx'] != drop[1]]
            for j, o in enumerate(lst):
                o['pos'] = j
            self.tr[t] = lst
        if pre:
            self.tr[self.INIT] = [dict(o, thread=self.INIT, pos=j) for j, o in enumerate(pre)]
        self.O = {}
        self.P = {t: z3.Int(f'P_{t}') for t in self.tr}
        for t, ops in self.tr.items():
            for o in ops:
                self.O[(t, o['pos'])] = z3.Int(f'O_{t}_{o["pos"]}')
        self.by_obj = collections.defaultdict(list)
        for t, ops in self.tr.items():
            for o in ops:
                self.by_obj[(o['kind'], o['obj'])].append(o)
        self.cons = []
        self.notes = []
        self._structure()

    def o(self, op):
        return self.O[(op['thread'], op['pos'])]

    def ex(self, op):
        return self.P[op['thread']] > op['pos']

    # ---- structural constraints
    def _structure(self):
        c = self.cons
        for t, ops in self.tr.items():
            if t == self.INIT:
                # already happened: all executed, before every operation of the real threads
                c.append(self.P[t] == len(ops))
                for j, o in enumerate(ops):
                    c.append(self.o(o) == j - len(ops))
                continue
            c.append(z3.And(self.P[t] >= 0, self.P[t] <= len(ops)))
            for a, b in zip(ops, ops[1:]):
                c.append(self.o(a) < self.o(b))
            for o in ops:
                c.append(self.o(o) >= 0)
        # thread start
        for t, ops in self.tr.items():
            for o in ops:
                if o['kind'] == 'th_start' and o['obj'] in self.tr and self.tr[o['obj']]:
                    first = self.tr[o['obj']][0]
                    c.append(z3.Implies(self.ex(first), z3.And(self.ex(o), self.o(o) < self.o(first))))
        # events: total order of the operations on one event
        evs = collections.defaultdict(list)
        for (kind, obj), ops in self.by_obj.items():
            if kind in ('ev_set', 'ev_clear', 'ev_wait'):
                evs[obj] += ops
            if kind == 'bar_arrive':
                self._distinct(ops)
        for obj, ops in evs.items():
            self._distinct(ops)
        # enabledness of executed blocking operations
        for t, ops in self.tr.items():
            for o in ops:
                if self.is_blocking(o):
                    en = self.enabled(o, at=self.o(o))
                    c.append(z3.Implies(self.ex(o), en))

    @staticmethod
    def is_blocking(o):
        """operations whose execution needs a condition on the others: the blocking kinds, and put on a bounded queue"""
        return o['kind'] in BLOCKING or (o['kind'] == 'q_put' and o.get('maxsize'))

    def _distinct(self, ops):
        for i in range(len(ops)):
            for j in range(i + 1, len(ops)):
                if ops[i]['thread'] != ops[j]['thread']:
                    self.cons.append(self.o(ops[i]) != self.o(ops[j]))

    def _kth(self, kind, obj, k):
        for o in self.by_obj.get((kind, obj), []):
            if o.get('k') == k:
                return o
        return None

    def enabled(self, o, at=None):
        """z3 Bool: operation o can run at time `at` (None = in the final state of the executed prefix)"""
        before = (lambda x: z3.And(self.ex(x), self.o(x) < at)) if at is not None else (lambda x: self.ex(x))
        kind = o['kind']
        if kind == 'ev_wait':
            sets = self.by_obj.get(('ev_set', o['obj']), [])
            clears = self.by_obj.get(('ev_clear', o['obj']), [])
            alts = []
            for s in sets:
                no_clear = []
                for cl in clears:
                    if at is not None:
                        no_clear.append(z3.Not(z3.And(self.ex(cl), self.o(s) < self.o(cl), self.o(cl) < at)))
                    else:
                        no_clear.append(z3.Not(z3.And(self.ex(cl), self.o(s) < self.o(cl))))
                alts.append(z3.And(before(s), *no_clear))
            return z3.Or(alts) if alts else z3.BoolVal(False)
        if kind == 'q_get':
            p = self._kth('q_put', o['obj'], o['k'])
            return before(p) if p is not None else z3.BoolVal(False)
        if kind == 'q_put':
            # bounded queue: the k-th put needs the (k - maxsize)-th get to have happened
            if o['k'] < o['maxsize']:
                return z3.BoolVal(True)
            g = self._kth('q_get', o['obj'], o['k'] - o['maxsize'])
            return before(g) if g is not None else z3.BoolVal(False)
        if kind == 'recv':
            if o.get('eof'):
                cl = self.by_obj.get(('close', o['obj']), [])
                return z3.Or([before(x) for x in cl]) if cl else z3.BoolVal(False)
            p = self._kth('send', o['obj'], o['k'])
            return before(p) if p is not None else z3.BoolVal(False)
        if kind == 'accept':
            p = self._kth('connect', o['obj'], o['k'])
            return before(p) if p is not None else z3.BoolVal(False)
        if kind == 'connect':
            if o['k'] == 0:
                return z3.BoolVal(True)
            p = self._kth('connect', o['obj'], o['k'] - 1)      # arrival order is imposed by the harness
            return before(p) if p is not None else z3.BoolVal(False)
        if kind == 'th_join':
            T = o['obj']
            if T not in self.tr:
                return z3.BoolVal(True)
            fin = self.P[T] == len(self.tr[T])
            if at is not None and self.tr[T]:
                return z3.And(fin, self.o(self.tr[T][-1]) < at)
            return fin
        if kind == 'bar_leave':
            arr = self.by_obj.get(('bar_arrive', o['obj']), [])
            mine = self.tr[o['thread']][o['pos'] - 1]
            assert mine['kind'] == 'bar_arrive' and mine['obj'] == o['obj']
            n = o['parties']
            users = collections.defaultdict(list)
            for a in arr:
                users[a['thread']].append(a)
            if len(users) == n:
                # exactly `parties` threads ever use this barrier: by induction on generations the j-th arrival of every
                # thread belongs to generation j (a thread cannot arrive again before it has left), so leaving needs the
                # j-th arrival of every user - pure ordering constraints
                j = users[o['thread']].index(mine)
                need = []
                for u, lst in users.items():
                    if j >= len(lst):
                        return z3.BoolVal(False)
                    need.append(before(lst[j]))
                return z3.And(need)
            self.notes.append(f'barrier {o["obj"]}: {len(users)} user threads for {n} parties - counting encoding')
            rank = z3.Sum([z3.If(z3.And(self.ex(a), self.o(a) < self.o(mine)), 1, 0) for a in arr if a is not mine])
            cnt = z3.Sum([z3.If(before(a), 1, 0) for a in arr])
            return cnt >= n * (rank / n + 1)
        raise ValueError(kind)

    # ---- queries
    def solver(self, timeout_ms=600000):
        s = z3.Solver()
        s.set('timeout', timeout_ms)
        s.add(self.cons)
        return s

    def stuck_or_done(self, t):
        ops = self.tr[t]
        alts = [self.P[t] == len(ops)]
        for o in ops:
            if self.is_blocking(o) and not o.get('nonblock'):       # a non-blocking operation never parks its thread
                alts.append(z3.And(self.P[t] == o['pos'], z3.Not(self.enabled(o, at=None))))
        return z3.Or(alts)

    def nonblocking_ops(self):
        return [o for ops in self.tr.values() for o in ops if o.get('nonblock')]

    def nonblock_fail_query(self):
        """some thread is about to run a get_nowait / timed get (put on a full bounded queue) that finds the queue empty
        (full) in the state reached by the executed prefix: the real call raises and the thread leaves its recorded path"""
        alts = [z3.And(self.P[o['thread']] == o['pos'], z3.Not(self.enabled(o, at=None))) for o in self.nonblocking_ops()]
        return [z3.Or(alts) if alts else z3.BoolVal(False)]

    def deadlock_query(self):
        q = [self.stuck_or_done(t) for t in self.tr]
        q.append(z3.Or([self.P[t] < len(ops) for t, ops in self.tr.items()]))
        return q

    def completion_query(self):
        return [self.P[t] == len(ops) for t, ops in self.tr.items()]

    def check(self, query, timeout_ms=600000):
        s = self.solver(timeout_ms)
        s.add(query)
        t0 = time.time()
        r = s.check()
        dt = time.time() - t0
        return str(r), (s.model() if r == z3.sat else None), dt

    def schedule_from(self, model):
        """executed operations in the order of the model; returns [(thread, ORIGINAL idx)] and the cut"""
        items = []
        cut = {}
        for t, ops in self.tr.items():
            p = model.eval(self.P[t], model_completion=True).as_long()
            cut[t] = p
            for o in ops[:p]:
                items.append((model.eval(self.o(o), model_completion=True).as_long(), t, o['pos'], o['idx']))
        items.sort()
        return [(t, idx) for _, t, _, idx in items], cut

    def describe_cut(self, cut):
        out = {}
        for t, ops in self.tr.items():
            p = cut[t]
            out[t] = 'finished' if p == len(ops) else {k: v for k, v in ops[p].items() if k in ('kind', 'obj', 'k', 'idx')}
        return out


def structure_checks(traces):
    """SPSC discipline of queues and byte streams; returns list of problems (empty = fine)"""
    prod, cons = collections.defaultdict(set), collections.defaultdict(set)
    for t, ops in traces.items():
        for o in ops:
            if o['kind'] in ('q_put', 'send'):
                prod[o['obj']].add(t)
            if o['kind'] in ('q_get', 'recv'):
                cons[o['obj']].add(t)
    bad = []
    for obj in set(prod) | set(cons):
        if len(prod[obj]) > 1:
            bad.append(f'{obj}: several producer threads {sorted(prod[obj])}')
        if len(cons[obj]) > 1:
            bad.append(f'{obj}: several consumer threads {sorted(cons[obj])}')
    for t, ops in traces.items():
        for o in ops:
            if o['kind'] == 'send' and o.get('n_msgs') != 1:
                bad.append(f'{t}#{o["idx"]}: one sendall carries {o.get("n_msgs")} messages')
    return bad


def signature(traces):
    """what must be identical under every schedule (Kahn determinism): per-thread operation sequences with contents"""
    sig = {}
    for t, ops in traces.items():
        sig[t] = [(o['kind'], o['obj'], o.get('k'), o.get('item'), o.get('data'), o.get('eof')) for o in ops
                  if o['kind'] != 'th_alive']
    return sig


def recorded_schedule(traces):
    """the order in which a (stalled) recording actually executed its operations, as a forced-replay schedule"""
    items = [(o['seq'], t, o['idx']) for t, ops in traces.items() for o in ops if o.get('done') and 'seq' in o]
    items.sort()
    return [(t, idx) for _, t, idx in items]
