"""Strings of concrete length with symbolic characters, and a model of `re` over them.

The regular-expression model is a backtracking matcher with sre semantics (leftmost, greedy/lazy
quantifiers with backtracking, ordered alternation, groups) driven by CPython's own parse of the
pattern (re._parser.parse), so a changed pattern in the repository is a changed encoding.
Symbolic characters compared under IGNORECASE are treated with ASCII case folding only (stated bound).
"""
import re
from re import _parser as sp
from re._constants import (ANY, AT, AT_BEGINNING, AT_BEGINNING_STRING, AT_END, AT_END_STRING, BRANCH,
                           CATEGORY, CATEGORY_DIGIT, CATEGORY_NOT_DIGIT, CATEGORY_NOT_SPACE,
                           CATEGORY_NOT_WORD, CATEGORY_SPACE, CATEGORY_WORD, IN, LITERAL, MAX_REPEAT,
                           MAXREPEAT, MIN_REPEAT, NEGATE, NOT_LITERAL, RANGE, SUBPATTERN)
import _sre

import z3

from .symx import RaiseEx, SBool, SInt, SStr, Sym, Unsupported, zint


class SBytes(SStr):
    def __repr__(s):
        return 'SBytes(' + ''.join(chr(c) if isinstance(c, int) else '?' for c in s.chars) + ')'


def chars_of(x):
    if isinstance(x, SStr):
        return x.chars
    if isinstance(x, str):
        return [ord(c) for c in x]
    if isinstance(x, (bytes, bytearray)):
        return list(x)
    raise Unsupported(f'chars_of {type(x).__name__}')


def mk(chars, like=None):
    """python str/bytes when concrete, SStr/SBytes otherwise"""
    isb = isinstance(like, (bytes, SBytes))
    if all(isinstance(c, int) for c in chars):
        return bytes(chars) if isb else ''.join(chr(c) for c in chars)
    return SBytes(chars) if isb else SStr(chars)


def concat(eng, parts):
    chars = []
    like = None
    for p in parts:
        if isinstance(p, (bytes, SBytes)):
            like = p
        chars.extend(chars_of(p))
    return mk(chars, like)


def zc(c):
    return c if isinstance(c, z3.ExprRef) else z3.IntVal(c)


def eq(a, b):
    """python bool or z3 Bool"""
    ca, cb = chars_of(a), chars_of(b)
    if len(ca) != len(cb):
        return False
    conds = []
    for x, y in zip(ca, cb):
        if isinstance(x, int) and isinstance(y, int):
            if x != y:
                return False
        else:
            conds.append(zc(x) == zc(y))
    if not conds:
        return True
    return z3.And(conds)


def contains(hay, needle):
    h, n = chars_of(hay), chars_of(needle)
    if len(n) == 0:
        return True
    alts = []
    for i in range(len(h) - len(n) + 1):
        e = eq(SStr(h[i:i + len(n)]), SStr(n))
        if e is True:
            return True
        if e is not False:
            alts.append(e)
    if not alts:
        return False
    return z3.Or(alts)


def find(eng, hay, needle, start=0):
    h, n = chars_of(hay), chars_of(needle)
    for i in range(start, len(h) - len(n) + 1):
        if eng.decide(eq(SStr(h[i:i + len(n)]), SStr(n))):
            return i
    return -1


def _upper_c(c):
    if isinstance(c, int):
        u = chr(c).upper()
        return ord(u) if len(u) == 1 else c
    return z3.If(z3.And(c >= 97, c <= 122), c - 32, c)


def _lower_c(c):
    if isinstance(c, int):
        u = chr(c).lower()
        return ord(u) if len(u) == 1 else c
    return z3.If(z3.And(c >= 65, c <= 90), c + 32, c)


def upper(s):
    return mk([_upper_c(c) for c in chars_of(s)], s)


def lower(s):
    return mk([_lower_c(c) for c in chars_of(s)], s)


def capitalize(s):
    ch = chars_of(s)
    return mk([_upper_c(c) if i == 0 else _lower_c(c) for i, c in enumerate(ch)], s)


WS = (9, 10, 11, 12, 13, 28, 29, 30, 31, 32, 133, 160)


def is_space_c(c):
    if isinstance(c, int):
        return chr(c).isspace()
    return z3.Or([c == w for w in WS])


def split(eng, s, sep=None, maxsplit=-1):
    ch = chars_of(s)
    out = []
    if sep is None:
        cur = None
        for c in ch:
            if eng.decide(is_space_c(c)):
                if cur is not None:
                    out.append(mk(cur, s))
                    cur = None
            else:
                cur = (cur or []) + [c]
        if cur is not None:
            out.append(mk(cur, s))
        return out
    sp_ = chars_of(sep)
    if len(sp_) == 0:
        raise RaiseEx(ValueError('empty separator'))
    i = 0
    cur = []
    n = 0
    while i < len(ch):
        if (maxsplit < 0 or n < maxsplit) and i + len(sp_) <= len(ch) and \
                eng.decide(eq(SStr(ch[i:i + len(sp_)]), SStr(sp_))):
            out.append(mk(cur, s))
            cur = []
            i += len(sp_)
            n += 1
        else:
            cur.append(ch[i])
            i += 1
    out.append(mk(cur, s))
    return out


def lstrip(eng, s, chars=None):
    ch = chars_of(s)
    i = 0
    while i < len(ch) and eng.decide(_in_strip(ch[i], chars)):
        i += 1
    return mk(ch[i:], s)


def rstrip(eng, s, chars=None):
    ch = chars_of(s)
    j = len(ch)
    while j > 0 and eng.decide(_in_strip(ch[j - 1], chars)):
        j -= 1
    return mk(ch[:j], s)


def _in_strip(c, chars):
    if chars is None:
        return is_space_c(c)
    cs = chars_of(chars)
    if isinstance(c, int):
        return c in cs
    return z3.Or([c == x for x in cs])


def replace(eng, s, old, new):
    ch, o, n = chars_of(s), chars_of(old), chars_of(new)
    if len(o) == 0:
        raise Unsupported('replace with empty pattern')
    out = []
    i = 0
    while i < len(ch):
        if i + len(o) <= len(ch) and eng.decide(eq(SStr(ch[i:i + len(o)]), SStr(o))):
            out.extend(n)
            i += len(o)
        else:
            out.append(ch[i])
            i += 1
    return mk(out, s)


def startswith(s, p):
    ch, pc = chars_of(s), chars_of(p)
    if len(pc) > len(ch):
        return False
    return eq(SStr(ch[:len(pc)]), SStr(pc))


def endswith(s, p):
    ch, pc = chars_of(s), chars_of(p)
    if len(pc) > len(ch):
        return False
    return eq(SStr(ch[len(ch) - len(pc):]), SStr(pc))


def is_digit_c(c):
    if isinstance(c, int):
        return 48 <= c <= 57
    return z3.And(c >= 48, c <= 57)


def to_int(eng, s):
    """int(str): optional surrounding white space and sign are not modelled for symbolic chars"""
    ch = chars_of(s)
    if all(isinstance(c, int) for c in ch):
        try:
            return int(''.join(chr(c) for c in ch))
        except ValueError as e:
            raise RaiseEx(e)
    if len(ch) == 0:
        raise RaiseEx(ValueError('invalid literal for int()'))
    for c in ch:
        if not eng.decide(is_digit_c(c)):
            raise RaiseEx(ValueError('invalid literal for int() (non-digit character)'))
    v = z3.IntVal(0)
    for c in ch:
        v = v * 10 + (zc(c) - 48)
    return SInt(z3.simplify(v))


def str_of_int(eng, v, max_digits=6):
    """str(n) for symbolic n: forks on sign and digit count only; digits stay symbolic"""
    z = zint(v)
    neg = eng.decide(z < 0)
    a = -z if neg else z
    for d in range(1, max_digits + 1):
        if eng.decide(a < 10 ** d):
            chars = [48 + (a / (10 ** (d - 1 - i))) % 10 for i in range(d)]
            chars = [z3.simplify(c) for c in chars]
            chars = [c.as_long() if z3.is_int_value(c) else c for c in chars]
            return mk(([45] if neg else []) + chars)
    raise Unsupported(f'str() of an integer with more than {max_digits} digits')


def join(eng, sep, items):
    parts = []
    for i, it in enumerate(items):
        if i:
            parts.append(sep)
        parts.append(it)
    return concat(eng, parts) if parts else ''


def encode(eng, s):
    ch = chars_of(s)
    for c in ch:
        if isinstance(c, int):
            if c >= 128:
                return _encode_mixed(eng, ch)
        elif not eng.decide(z3.And(c >= 0, c < 128)):
            raise Unsupported('non-ASCII symbolic character in encode()')
    return mk(ch, b'')


def _encode_mixed(eng, ch):
    out = []
    for c in ch:
        if isinstance(c, int):
            out.extend(chr(c).encode('utf-8'))
        else:
            if not eng.decide(z3.And(c >= 0, c < 128)):
                raise Unsupported('non-ASCII symbolic character in encode()')
            out.append(c)
    return mk(out, b'')


def decode(eng, b):
    ch = chars_of(b)
    if all(isinstance(c, int) for c in ch):
        try:
            return bytes(ch).decode('utf-8')
        except UnicodeDecodeError as e:
            raise RaiseEx(e)
    for c in ch:
        if not isinstance(c, int) and not eng.decide(z3.And(c >= 0, c < 128)):
            raise Unsupported('non-ASCII symbolic byte in decode()')
        if isinstance(c, int) and c >= 128:
            raise Unsupported('mixed non-ASCII / symbolic bytes in decode()')
    return mk(ch, '')


# --------------------------------------------------------------------------
# regular expressions
# --------------------------------------------------------------------------
class SMatch:
    def __init__(self, s, groups, ngroups, like, names=None):
        self.s, self._g, self.n, self.like = s, groups, ngroups, like
        self.names = dict(names or {})

    def _idx(self, i):
        if isinstance(i, str):
            if i not in self.names:
                raise RaiseEx(IndexError('no such group'))
            return self.names[i]
        return i

    def __getitem__(self, i):
        return self.group(i)

    def groupdict(self, default=None):
        return {k: (self.group(v) if v in self._g else default) for k, v in self.names.items()}

    def group(self, *idx):
        if not idx:
            idx = (0,)
        res = []
        for i in idx:
            i = self._idx(i)
            if i not in self._g:
                if i > self.n:
                    raise RaiseEx(IndexError('no such group'))
                res.append(None)
            else:
                a, b = self._g[i]
                res.append(mk(self.s[a:b], self.like))
        return res[0] if len(res) == 1 else tuple(res)

    def groups(self, default=None):
        return tuple(self.group(i) if i in self._g else default for i in range(1, self.n + 1))

    def start(self, i=0):
        i = self._idx(i)
        return self._g[i][0] if i in self._g else -1

    def end(self, i=0):
        i = self._idx(i)
        return self._g[i][1] if i in self._g else -1

    def span(self, i=0):
        return self._g.get(self._idx(i), (-1, -1))

    def __bool__(self):
        return True


class _M:
    def __init__(self, eng, s, flags):
        self.eng, self.s, self.flags = eng, s, flags
        self.ic = bool(flags & re.I)

    def dec(self, z):
        if isinstance(z, bool):
            return z
        return self.eng.decide(z)

    def lit(self, c, ch):
        if self.ic:
            alts = {ch, _sre.unicode_tolower(ch), ord(chr(ch).upper()) if len(chr(ch).upper()) == 1 else ch,
                    ord(chr(ch).lower()) if len(chr(ch).lower()) == 1 else ch}
            if isinstance(c, int):
                return _sre.unicode_tolower(c) in {_sre.unicode_tolower(a) for a in alts} or \
                    bool(re.fullmatch(re.escape(chr(ch)), chr(c), re.I))
            return z3.Or([c == a for a in sorted(alts)])
        return (c == ch)

    def category(self, c, cat):
        if cat is CATEGORY_DIGIT:
            return chr(c).isdigit() if isinstance(c, int) else z3.And(c >= 48, c <= 57)
        if cat is CATEGORY_NOT_DIGIT:
            return (not chr(c).isdigit()) if isinstance(c, int) else z3.Not(z3.And(c >= 48, c <= 57))
        if cat is CATEGORY_SPACE:
            return chr(c).isspace() if isinstance(c, int) else z3.Or([c == w for w in WS])
        if cat is CATEGORY_NOT_SPACE:
            return (not chr(c).isspace()) if isinstance(c, int) else z3.Not(z3.Or([c == w for w in WS]))
        if cat is CATEGORY_WORD:
            if isinstance(c, int):
                return chr(c).isalnum() or c == 95
            return z3.Or(z3.And(c >= 48, c <= 57), z3.And(c >= 65, c <= 90), z3.And(c >= 97, c <= 122), c == 95)
        if cat is CATEGORY_NOT_WORD:
            r = self.category(c, CATEGORY_WORD)
            return (not r) if isinstance(r, bool) else z3.Not(r)
        raise Unsupported(f'regex category {cat}')

    def inset(self, c, items):
        neg = False
        tests = []
        for op, av in items:
            if op is NEGATE:
                neg = True
            elif op is LITERAL:
                tests.append(self.lit(c, av))
            elif op is RANGE:
                lo, hi = av
                if self.ic and isinstance(c, int):
                    tests.append(any(lo <= x <= hi for x in {c, ord(chr(c).lower()[0]), ord(chr(c).upper()[0])}))
                elif self.ic:
                    t = [z3.And(c >= lo, c <= hi)]
                    for x in range(lo, hi + 1):
                        for y in {ord(chr(x).lower()[0]), ord(chr(x).upper()[0])} - {x}:
                            t.append(c == y)
                    tests.append(z3.Or(t))
                else:
                    tests.append((lo <= c <= hi) if isinstance(c, int) else z3.And(c >= lo, c <= hi))
            elif op is CATEGORY:
                tests.append(self.category(c, av))
            else:
                raise Unsupported(f'regex set item {op}')
        if all(isinstance(t, bool) for t in tests):
            r = any(tests)
        else:
            r = z3.Or([t if not isinstance(t, bool) else z3.BoolVal(t) for t in tests])
        if neg:
            r = (not r) if isinstance(r, bool) else z3.Not(r)
        return r

    def seq(self, nodes, i, pos, groups):
        if i == len(nodes):
            yield pos
            return
        op, av = nodes[i]
        s = self.s
        if op in (LITERAL, NOT_LITERAL, ANY, IN):
            if pos >= len(s):
                return
            c = s[pos]
            if op is LITERAL:
                t = self.lit(c, av)
            elif op is NOT_LITERAL:
                t = self.lit(c, av)
                t = (not t) if isinstance(t, bool) else z3.Not(t)
            elif op is ANY:
                if self.flags & re.S:
                    t = True
                else:
                    t = (c != 10)
            else:
                t = self.inset(c, av)
            if self.dec(t):
                yield from self.seq(nodes, i + 1, pos + 1, groups)
            return
        if op is SUBPATTERN:
            g, _, _, p = av
            for e in self.seq(list(p), 0, pos, groups):
                old = groups.get(g)
                if g is not None:
                    groups[g] = (pos, e)
                yield from self.seq(nodes, i + 1, e, groups)
                if g is not None:
                    if old is None:
                        groups.pop(g, None)
                    else:
                        groups[g] = old
            return
        if op is BRANCH:
            for alt in av[1]:
                for e in self.seq(list(alt), 0, pos, groups):
                    yield from self.seq(nodes, i + 1, e, groups)
            return
        if op in (MAX_REPEAT, MIN_REPEAT):
            lo, hi, p = av
            yield from self.rep(list(p), lo, hi, op is MAX_REPEAT, 0, pos, nodes, i, groups)
            return
        if op is AT:
            if av in (AT_BEGINNING, AT_BEGINNING_STRING):
                ok = pos == 0
            elif av is AT_END_STRING:
                ok = pos == len(s)
            elif av is AT_END:
                if pos == len(s):
                    ok = True
                elif pos == len(s) - 1:
                    ok = self.dec(s[pos] == 10)
                else:
                    ok = False
            else:
                raise Unsupported(f'regex AT {av}')
            if ok:
                yield from self.seq(nodes, i + 1, pos, groups)
            return
        raise Unsupported(f'regex op {op}')

    def rep(self, p, lo, hi, greedy, count, pos, nodes, i, groups):
        if greedy:
            if hi is MAXREPEAT or count < hi:
                for e in self.seq(p, 0, pos, groups):
                    if e == pos and count >= lo:
                        continue
                    yield from self.rep(p, lo, hi, greedy, count + 1, e, nodes, i, groups)
            if count >= lo:
                yield from self.seq(nodes, i + 1, pos, groups)
        else:
            if count >= lo:
                yield from self.seq(nodes, i + 1, pos, groups)
            if hi is MAXREPEAT or count < hi:
                for e in self.seq(p, 0, pos, groups):
                    if e == pos and count >= lo:
                        continue
                    yield from self.rep(p, lo, hi, greedy, count + 1, e, nodes, i, groups)


def _pattern_str(eng, pattern):
    if isinstance(pattern, SStr):
        if not pattern.is_concrete():
            raise Unsupported('symbolic regular-expression pattern')
        return pattern.concrete()
    return pattern


def _match_at(eng, tree, flags, s, start, full):
    m = _M(eng, s, flags | tree.state.flags)
    groups = {}
    for e in m.seq(list(tree), 0, start, groups):
        if full and e != len(s):
            continue
        g = dict(groups)
        g[0] = (start, e)
        return g
    return None


def _flags_of(args, kwargs, pos):
    if 'flags' in kwargs:
        return int(kwargs['flags'])
    if len(args) > pos:
        return int(args[pos])
    return 0


def re_match(eng, pattern, string, flags=0, full=False):
    pattern = _pattern_str(eng, pattern)
    tree = sp.parse(pattern, flags)
    s = chars_of(string)
    g = _match_at(eng, tree, flags, s, 0, full)
    if g is None:
        return None
    return SMatch(s, g, tree.state.groups - 1, string, tree.state.groupdict)


def re_search(eng, pattern, string, flags=0):
    pattern = _pattern_str(eng, pattern)
    tree = sp.parse(pattern, flags)
    s = chars_of(string)
    for st in range(len(s) + 1):
        g = _match_at(eng, tree, flags, s, st, False)
        if g is not None:
            return SMatch(s, g, tree.state.groups - 1, string, tree.state.groupdict)
    return None


def _iter_matches(eng, pattern, string, flags):
    pattern = _pattern_str(eng, pattern)
    tree = sp.parse(pattern, flags)
    s = chars_of(string)
    pos = 0
    n = tree.state.groups - 1
    while pos <= len(s):
        found = None
        for st in range(pos, len(s) + 1):
            g = _match_at(eng, tree, flags, s, st, False)
            if g is not None:
                found = g
                break
        if found is None:
            return
        yield SMatch(s, found, n, string, tree.state.groupdict)
        a, b = found[0]
        pos = b if b > a else b + 1


def re_findall(eng, pattern, string, flags=0):
    out = []
    for m in _iter_matches(eng, pattern, string, flags):
        if m.n == 0:
            out.append(m.group(0))
        elif m.n == 1:
            out.append(m.group(1) if 1 in m._g else '')
        else:
            out.append(tuple(m.group(i) if i in m._g else '' for i in range(1, m.n + 1)))
    return out


def re_sub(eng, pattern, repl, string, count=0, flags=0):
    if not isinstance(repl, (str, SStr)):
        raise Unsupported('re.sub with a callable replacement')
    rc = chars_of(repl)
    if 92 in rc:
        raise Unsupported('re.sub replacement with backslash')
    s = chars_of(string)
    out = []
    last = 0
    k = 0
    for m in _iter_matches(eng, pattern, string, flags):
        a, b = m.span(0)
        out.extend(s[last:a])
        out.extend(rc)
        last = b
        k += 1
        if count and k >= count:
            break
    out.extend(s[last:])
    return mk(out, string)
