"""The 52-card universe used by the CardSet model (Set[Card] as 52 Booleans)."""
import z3

from .symx import CardSet, SEnum, SInt, SObj, Sym, Unsupported, zint, enum_code

CARDS = []          # index -> real Card object of the repository under test
_Card = None
_Suit = None


def init():
    """(re)build the universe from the bridge_env that is importable now"""
    global CARDS, _Card, _Suit
    from bridge_env import Card, Suit
    _Card, _Suit = Card, Suit
    CARDS = [Card(i % 13 + 2, Suit(i // 13 + 1)) for i in range(52)]
    global _ORDER
    _ORDER = None


_ORDER = None


def sorted_order():
    """universe indices in the order the REAL sorted() puts the real cards (uses the repository's Card.__lt__)"""
    global _ORDER
    if _ORDER is None:
        _ORDER = [CARDS.index(c) for c in sorted(CARDS)]
    return _ORDER


def is_card(v):
    return (_Card is not None and isinstance(v, _Card)) or (isinstance(v, SObj) and v.cls is _Card)


def card_idx(c):
    """z3 Int (or python int) index 0..51 of a real or symbolic card"""
    if isinstance(c, SObj):
        s = c.attrs['suit']
        sz = s.z if isinstance(s, SEnum) else z3.IntVal(enum_code(s))
        return (sz - 1) * 13 + zint(c.attrs['rank']) - 2
    if _Card is not None and isinstance(c, _Card):
        return (c.suit.value - 1) * 13 + c.rank - 2
    raise Unsupported(f'card_idx of {c!r}')


def sym_card(rank_z, suit_z):
    return SObj(_Card, {'rank': SInt(rank_z) if not isinstance(rank_z, int) else rank_z,
                        'suit': SEnum(_Suit, suit_z) if not isinstance(suit_z, int) else _Suit(suit_z)})


def member(cs, c):
    ix = card_idx(c)
    if isinstance(ix, int):
        return cs.bits[ix] if 0 <= ix < 52 else z3.BoolVal(False)
    return z3.Or([z3.And(ix == i, bit) for i, bit in enumerate(cs.bits)])


def cardset_from_cards(eng, cards):
    """CardSet from python cards (concrete)"""
    bits = [z3.BoolVal(False)] * 52
    n = 0
    for c in cards:
        i = card_idx(c)
        if not z3.is_true(bits[i]):
            n += 1
        bits[i] = z3.BoolVal(True)
    return CardSet(bits, z3.IntVal(n))


def cardset_from_symbolic_cards(eng, cards):
    """CardSet built by adding (possibly symbolic) cards one after the other"""
    cs = CardSet([z3.BoolVal(False)] * 52, z3.IntVal(0))
    for c in cards:
        add(eng, cs, c)
    return cs


def add(eng, cs, c):
    g = eng.guard()
    ix = card_idx(c)
    m = member(cs, c)
    if isinstance(ix, int):
        newbit = z3.BoolVal(True) if g is None else z3.Or(cs.bits[ix], g)
        cs.bits[ix] = z3.simplify(newbit)
    else:
        cs.bits = [z3.Or(b, (ix == i) if g is None else z3.And(g, ix == i)) for i, b in enumerate(cs.bits)]
    inc = z3.If(m, cs.n, cs.n + 1)
    cs.n = inc if g is None else z3.If(g, inc, cs.n)


def remove(eng, cs, c):
    """set.remove: KeyError when absent"""
    from .symx import RaiseEx
    m = member(cs, c)
    if not eng.decide(m):
        raise RaiseEx(KeyError('remove'))
    g = eng.guard()
    ix = card_idx(c)
    if isinstance(ix, int):
        cs.bits[ix] = z3.BoolVal(False) if g is None else z3.And(cs.bits[ix], z3.Not(g))
    else:
        cs.bits = [z3.And(b, (ix != i) if g is None else z3.Not(z3.And(g, ix == i))) for i, b in enumerate(cs.bits)]
    cs.n = cs.n - 1 if g is None else z3.If(g, cs.n - 1, cs.n)


def discard(eng, cs, c):
    g = eng.guard()
    m = member(cs, c)
    ix = card_idx(c)
    if isinstance(ix, int):
        cs.bits[ix] = z3.BoolVal(False) if g is None else z3.And(cs.bits[ix], z3.Not(g))
    else:
        cs.bits = [z3.And(b, (ix != i) if g is None else z3.Not(z3.And(g, ix == i))) for i, b in enumerate(cs.bits)]
    dec = z3.If(m, cs.n - 1, cs.n)
    cs.n = dec if g is None else z3.If(g, dec, cs.n)


def equal(a, b):
    return z3.And([x == y for x, y in zip(a.bits, b.bits)])


def fresh_cardset(prefix, with_size=True):
    bits = [z3.Bool(f'{prefix}_{i}') for i in range(52)]
    n = z3.Int(f'{prefix}_n') if with_size else None
    return CardSet(bits, n)
