"""Recording and forced-schedule replay of REAL server sessions (Server.run + PlayerThreads + bundled Clients).

Everything runs in one process over in-memory sockets.  The synchronisation primitives used by
bridge_env.network_bridge.server (module globals Event / Queue / Barrier, Thread.start/join/is_alive of PlayerThread)
and the sockets are wrapped by recorders AROUND THE REAL PRIMITIVES: every operation is logged per thread in program
order.  No source hook is needed: the wrappers are installed from outside and removed afterwards.

Two modes:
  record  - natural schedule; yields the per-thread traces that engine/po.py turns into an SMT partial-order problem
  replay  - a total order of operations (a solver model) is forced on the real threads up to a cut, then all threads
            are released into their real blocking calls and the process is watched for (lack of) progress
"""
import collections
import io
import os
import queue as _queue
import random
import sys
import threading
import time
import traceback

BLOCKING = {'ev_wait', 'q_get', 'bar_leave', 'th_join', 'recv', 'accept'}


class Op(dict):
    __getattr__ = dict.get


class Control:
    """shared by all wrappers of one session"""

    def __init__(self, mode='record', schedule=None, perturb=None):
        self.mode = mode
        self.lock = threading.Condition()
        self.traces = collections.OrderedDict()     # thread key -> [Op]
        self.keys = {}                              # thread ident -> key
        self.progress = 0
        self.names = {}                             # id(obj) -> stable name
        self.counters = collections.Counter()
        self.schedule = list(schedule or [])        # [(thread key, op index)]
        self.pos = 0
        self.free = mode != 'replay' or not self.schedule
        self.perturb = random.Random(perturb) if perturb is not None else None
        self.errors = []
        self.aborted = False
        self.pt_count = 0
        self.finished = set()

    # -- identity
    def key(self):
        return self.keys.get(threading.get_ident(), f'unknown-{threading.get_ident()}')

    def register(self, key):
        with self.lock:
            self.keys[threading.get_ident()] = key
            self.traces.setdefault(key, [])

    def name(self, obj, kind):
        with self.lock:
            if id(obj) not in self.names:
                self.names[id(obj)] = f'{kind}#{self.counters[kind]}'
                self.counters[kind] += 1
            return self.names[id(obj)]

    # -- logging / gating
    def log(self, kind, obj, **kw):
        k = self.key()
        with self.lock:
            tr = self.traces.setdefault(k, [])
            op = Op(kind=kind, obj=obj, idx=len(tr), thread=k, done=False, **kw)
            tr.append(op)
        return op

    def gate(self, op):
        """replay mode: wait until this operation is the next one of the forced schedule (or the schedule is used up)"""
        with self.lock:
            while not self.free and not self.aborted and \
                    not (self.pos < len(self.schedule) and tuple(self.schedule[self.pos]) == (op.thread, op.idx)):
                if self.pos >= len(self.schedule):
                    self.free = True
                    self.lock.notify_all()
                    break
                self.lock.wait(0.05)
        if self.aborted:
            raise SessionAborted()
        if self.perturb is not None and self.perturb.random() < 0.3:
            time.sleep(self.perturb.random() * 0.002)

    def before(self, kind, obj, **kw):
        """log the operation (attempt) and, in replay mode, wait for its turn"""
        op = self.log(kind, obj, **kw)
        self.gate(op)
        return op

    def after(self, op, **kw):
        with self.lock:
            op.update(kw)
            op['done'] = True
            self.progress += 1
            op['seq'] = self.progress
            if not self.free and self.pos < len(self.schedule) and tuple(self.schedule[self.pos]) == (op.thread, op.idx):
                self.pos += 1
                if self.pos >= len(self.schedule):
                    self.free = True
            self.lock.notify_all()

    def abort(self):
        with self.lock:
            self.aborted = True
            self.lock.notify_all()


class SessionAborted(BaseException):
    pass


# --------------------------------------------------------------------------
# wrappers around the real primitives
# --------------------------------------------------------------------------
def make_wrappers(ctl):
    real_event, real_queue, real_barrier = threading.Event, _queue.Queue, threading.Barrier

    class REvent:
        def __init__(self):
            self._e = real_event()
            self._n = ctl.name(self, 'Event')

        def set(self):
            op = ctl.before('ev_set', self._n)
            self._e.set()
            ctl.after(op)

        def clear(self):
            op = ctl.before('ev_clear', self._n)
            self._e.clear()
            ctl.after(op)

        def is_set(self):
            return self._e.is_set()

        def wait(self, timeout=None):
            op = ctl.before('ev_wait', self._n)
            r = _blocking(ctl, lambda t: self._e.wait(t), lambda r: r)
            ctl.after(op)
            return r

    class RQueue:
        def __init__(self, maxsize=0):
            self._q = real_queue(maxsize)
            self._n = ctl.name(self, 'Queue')
            self._puts = 0
            self._gets = 0

        def put(self, item, block=True, timeout=None):
            with ctl.lock:
                k = self._puts
                self._puts += 1
            kw = {}
            if self._q.maxsize > 0:
                kw['maxsize'] = self._q.maxsize          # a bounded queue: put can block (or fail) when it is full
                if not block or timeout is not None:
                    kw['nonblock'] = True
            op = ctl.before('q_put', self._n, k=k, item=item if isinstance(item, str) else repr(item), **kw)
            if kw.get('nonblock'):
                try:
                    self._q.put(item, block, timeout)    # the real semantics: may raise queue.Full
                except _queue.Full:
                    ctl.after(op, failed=True)
                    raise
            elif kw:
                def attempt(t):
                    try:
                        self._q.put(item, True, t)
                        return True
                    except _queue.Full:
                        return False
                _blocking(ctl, attempt, lambda r: r)
            else:
                self._q.put(item)
            ctl.after(op)

        def get(self, block=True, timeout=None):
            with ctl.lock:
                k = self._gets
                self._gets += 1
            if not block or timeout is not None:
                # get_nowait / get with a time limit: the real semantics (may raise queue.Empty, which is what the
                # program would see); recorded as a non-blocking operation
                op = ctl.before('q_get', self._n, k=k, nonblock=True)
                try:
                    item = self._q.get(block, timeout)
                except _queue.Empty:
                    ctl.after(op, failed=True)
                    raise
                ctl.after(op, item=item if isinstance(item, str) else repr(item))
                return item
            op = ctl.before('q_get', self._n, k=k)

            def attempt(t):
                try:
                    return (self._q.get(True, t),)
                except _queue.Empty:
                    return None
            r = _blocking(ctl, attempt, lambda r: r is not None)
            ctl.after(op, item=r[0] if isinstance(r[0], str) else repr(r[0]))
            return r[0]

        def put_nowait(self, item):
            return self.put(item, block=False)

        def get_nowait(self):
            return self.get(block=False)

        def empty(self):
            return self._q.empty()

        def qsize(self):
            return self._q.qsize()

    class RBarrier:
        def __init__(self, parties, action=None, timeout=None):
            self._b = real_barrier(parties)
            self._n = ctl.name(self, 'Barrier')
            self.parties = parties

        def wait(self, timeout=None):
            op = ctl.before('bar_arrive', self._n, parties=self.parties)
            ctl.after(op)                     # the arrival itself is registered by the real wait() below
            op2 = ctl.log('bar_leave', self._n, parties=self.parties)
            r = _barrier_wait(ctl, self._b)
            ctl.gate(op2)
            ctl.after(op2)
            return r

        def abort(self):
            self._b.abort()

    return REvent, RQueue, RBarrier


def _blocking(ctl, attempt, ok):
    """call a real blocking primitive in slices so that an aborted session can be torn down"""
    while True:
        r = attempt(0.1)
        if ok(r):
            return r
        if ctl.aborted:
            raise SessionAborted()


def _barrier_wait(ctl, b):
    try:
        return b.wait()
    except threading.BrokenBarrierError:
        raise SessionAborted()


# --------------------------------------------------------------------------
# in-memory sockets
# --------------------------------------------------------------------------
class FakeNet:
    def __init__(self, ctl):
        self.ctl = ctl
        self.cond = threading.Condition()
        self.listeners = {}
        self.nconn = 0
        self.conns = []
        self.on_connect = None

    def socket(self, *a, **k):
        return FakeSocket(self)

    AF_INET, SOCK_STREAM = 2, 1


class FakeSocket:
    def __init__(self, net):
        self.net = net
        self.pending = collections.deque()
        self.role = None
        self.peer = None
        self.buf = bytearray()
        self.closed = False
        self.chan_in = self.chan_out = None
        self.sent = 0
        self.recvd = 0
        self.at_start = True
        self.accepts = 0
        self.log = []           # messages received (decoded) / sent on this endpoint, for transcripts
        self.sent_log = []

    # listening side
    def bind(self, addr):
        self.addr = addr

    def listen(self, n=0):
        with self.net.cond:
            self.net.listeners[self.addr[1]] = self
            self.net.cond.notify_all()

    def accept(self):
        ctl = self.net.ctl
        op = ctl.before('accept', f'listener:{self.addr[1]}', k=self.accepts)
        self.accepts += 1
        while True:
            with self.net.cond:
                if self.pending:
                    s = self.pending.popleft()
                    break
                self.net.cond.wait(0.1)
            if ctl.aborted:
                raise SessionAborted()
        ctl.after(op, conn=s.conn_id)
        return s, ('fake', 0)

    # connecting side
    def connect(self, addr):
        ctl = self.net.ctl
        while True:
            with self.net.cond:
                lst = self.net.listeners.get(addr[1])
                if lst is not None:
                    break
                self.net.cond.wait(0.05)
            if ctl.aborted:
                raise SessionAborted()
        with self.net.cond:
            cid = self.net.nconn
            self.net.nconn += 1
        op = ctl.before('connect', f'listener:{addr[1]}', k=cid)
        srv = FakeSocket(self.net)
        srv.peer, self.peer = self, srv
        srv.conn_id = self.conn_id = cid
        self.chan_out = srv.chan_in = f'conn{cid}:c2s'
        self.chan_in = srv.chan_out = f'conn{cid}:s2c'
        self.role, srv.role = 'client', 'server'
        with self.net.cond:
            self.net.conns.append((self, srv))
            lst.pending.append(srv)
            self.net.cond.notify_all()
        ctl.after(op)
        if self.net.on_connect:
            self.net.on_connect(cid)

    def sendall(self, data):
        ctl = self.net.ctl
        if self.closed:
            raise OSError('send on closed socket')
        n = data.count(b'\r\n')
        op = ctl.before('send', self.chan_out, k=self.sent, n_msgs=n, data=data.decode('utf-8', 'replace'))
        if self.closed:
            # closed by another thread while this one was about to send (forced schedules hold a thread exactly here)
            ctl.after(op, failed=True)
            raise OSError('send on closed socket')
        self.sent += 1
        with self.net.cond:
            if not self.peer.closed:
                self.peer.buf.extend(data)
            self.sent_log.append(data.decode('utf-8', 'replace'))
            self.net.cond.notify_all()
        ctl.after(op)

    def recv(self, n):
        ctl = self.net.ctl
        if self.closed:
            raise OSError('recv on closed socket')
        op = None
        if self.at_start:
            op = ctl.before('recv', self.chan_in, k=self.recvd)
            self.recvd += 1
        while True:
            with self.net.cond:
                if self.buf:
                    out = bytes(self.buf[:n])
                    del self.buf[:n]
                    break
                if self.peer.closed or self.closed:
                    out = b''
                    break
                self.net.cond.wait(0.1)
            if ctl.aborted:
                raise SessionAborted()
        if op is not None:
            ctl.after(op, eof=(out == b''))
        self.at_start = out.endswith(b'\n')
        return out

    def close(self):
        ctl = self.net.ctl
        if self.peer is None:
            self.closed = True
            return
        op = ctl.before('close', self.chan_out)
        with self.net.cond:
            self.closed = True
            self.net.cond.notify_all()
        ctl.after(op)


# --------------------------------------------------------------------------
# a session
# --------------------------------------------------------------------------
class SeededRandomPlay:
    """the bundled RandomPlay policy with a private generator (the bundled one shares the global `random` between
    the four client threads, which would make the cards depend on thread timing)"""

    def __init__(self, seed):
        self.rng = random.Random(seed)

    def play(self, hand, playing_phase):
        return self.rng.choice(sorted(playing_phase.current_available_cards(hand)))


class ScriptedBid:
    """makes a fixed list of calls per board, each as soon as it is legal (otherwise, and afterwards, passes); calls are Bid values"""

    def __init__(self, script):
        self.script = [list(s) for s in script]
        self.board = -1
        self.last_env = None

    def bid(self, hand, bidding_phase):
        from bridge_env import Bid
        if bidding_phase is not self.last_env:
            self.last_env = bidding_phase
            self.board += 1
        s = self.script[self.board] if self.board < len(self.script) else []
        # the next scripted call is made as soon as it is legal (until then the seat passes and keeps it)
        if s and bidding_phase.available_bid[Bid(s[0]).idx] == 1:
            return Bid(s.pop(0))
        return Bid.Pass


class Session:
    def __init__(self, boards, clients, mode='record', schedule=None, perturb=None, out_path=None, idle_s=4.0,
                 max_s=120.0, raw_clients=None):
        """boards: list of BoardSetting. clients: list of dict(seat=Player, team=str, bidding=obj, playing=obj) in
        arrival order. raw_clients: {arrival position: callable(sock_factory, port)} for non-conforming connection attempts"""
        self.boards, self.clients = boards, clients
        self.ctl = Control(mode, schedule, perturb)
        self.net = FakeNet(self.ctl)
        self.out_path = out_path or os.path.join('/tmp', f'verif_session_{os.getpid()}_{id(self)}.json')
        self.idle_s, self.max_s = idle_s, max_s
        self.result = {}
        self.client_results = {}
        self.server_exc = None

    def run(self):
        import pathlib
        from bridge_env.network_bridge import client as client_mod
        from bridge_env.network_bridge import server as server_mod
        from bridge_env.network_bridge import socket_interface as si
        ctl = self.ctl
        REvent, RQueue, RBarrier = make_wrappers(ctl)
        saved = {}

        def patch(mod, name, val):
            saved[(mod, name)] = getattr(mod, name)
            setattr(mod, name, val)
        fake_socket_mod = type(sys)('fake_socket')
        fake_socket_mod.socket = self.net.socket
        fake_socket_mod.AF_INET, fake_socket_mod.SOCK_STREAM = 2, 1
        fake_time = type(sys)('fake_time')
        fake_time.sleep = lambda s: None
        fake_time.time = time.time
        patch(si, 'socket', fake_socket_mod)
        patch(server_mod, 'socket', fake_socket_mod)
        patch(server_mod, 'time', fake_time)
        patch(server_mod, 'Event', REvent)
        patch(server_mod, 'Queue', RQueue)
        if hasattr(server_mod, 'Barrier'):
            patch(server_mod, 'Barrier', RBarrier)
        PT = server_mod.PlayerThread
        real_start, real_join, real_alive, real_run = PT.start, PT.join, PT.is_alive, PT.run

        def pt_start(th):
            with ctl.lock:
                th._vkey = f'pt{ctl.pt_count}'
                ctl.pt_count += 1
                ctl.traces.setdefault(th._vkey, [])
            op = ctl.before('th_start', th._vkey)
            ctl.after(op)          # stamped before the thread exists, so that its operations are ordered after this one
            real_start(th)

        def pt_run(th):
            ctl.register(th._vkey)
            try:
                real_run(th)
            except SessionAborted:
                pass
            except BaseException as e:          # a dying seat thread is part of the behaviour under test
                ctl.errors.append((th._vkey, repr(e)))
            finally:
                with ctl.lock:
                    ctl.finished.add(th._vkey)
                    ctl.progress += 1
                    ctl.lock.notify_all()

        def pt_join(th, timeout=None):
            if timeout is not None:
                # a join with a time limit: the real semantics (it may return while the thread is still running); recorded as
                # an operation that does not wait
                op = ctl.before('th_join', th._vkey, nonblock=True, timeout=float(timeout))
                real_join(th, timeout)
                ctl.after(op, expired=real_alive(th))
                return
            op = ctl.before('th_join', th._vkey)
            while True:
                real_join(th, 0.1)
                if not real_alive(th):
                    break
                if ctl.aborted:
                    raise SessionAborted()
            ctl.after(op)

        def pt_alive(th):
            op = ctl.before('th_alive', th._vkey)
            r = real_alive(th)
            ctl.after(op, result=r)
            return r
        PT.start, PT.join, PT.is_alive, PT.run = pt_start, pt_join, pt_alive, pt_run
        real_init = PT.__init__

        class RecDict:
            """the seat table as the seat threads see it: the SAME dict the main thread uses, accesses logged"""

            def __init__(self, d):
                self.d = d

            def __getitem__(self, k):
                op = ctl.before('tn_read', 'team_names', key=str(k))
                v = self.d[k]
                ctl.after(op, value=v)
                return v

            def __setitem__(self, k, v):
                op = ctl.before('tn_write', 'team_names', key=str(k), value=v)
                self.d[k] = v
                ctl.after(op)

            def items(self):
                return self.d.items()

        def pt_init(th, *a, **kw):
            if 'team_names' in kw and isinstance(kw['team_names'], dict):
                kw['team_names'] = RecDict(kw['team_names'])
            real_init(th, *a, **kw)
        PT.__init__ = pt_init
        # the clients' local replicas of each board (auction and single-seat observer) are collected for comparison with
        # the table manager's log: subclasses of the real classes that only register their instances
        replicas = []
        RealBP, RealOPP = client_mod.BiddingPhase, client_mod.ObservedPlayingPhase

        class RecBiddingPhase(RealBP):
            def __init__(self_, *a, **k):
                RealBP.__init__(self_, *a, **k)
                replicas.append((ctl.key(), 'auction', self_))

        class RecObserved(RealOPP):
            def __init__(self_, *a, **k):
                RealOPP.__init__(self_, *a, **k)
                replicas.append((ctl.key(), 'play', self_))
        patch(client_mod, 'BiddingPhase', RecBiddingPhase)
        patch(client_mod, 'ObservedPlayingPhase', RecObserved)
        threads = []
        try:
            server = server_mod.Server('fake', 2000, pathlib.Path(self.out_path), self.boards)

            def server_main():
                ctl.register('main')
                try:
                    with server:
                        server.run()
                    self.result['server_done'] = True
                except SessionAborted:
                    pass
                except BaseException as e:
                    self.server_exc = e
                    self.result['server_exc'] = repr(e)
                finally:
                    with ctl.lock:
                        ctl.finished.add('main')
                        ctl.progress += 1
                        ctl.lock.notify_all()
            tm = threading.Thread(target=server_main, daemon=True, name='verif-server-main')
            threads.append(tm)
            gate = [threading.Event() for _ in self.clients] + [threading.Event()]
            gate[0].set()
            # arrival order is part of the session definition: client i+1 connects after client i has connected
            self.net.on_connect = lambda cid: gate[min(cid + 1, len(gate) - 1)].set()

            def client_main(i, spec):
                key = f'cl{i}'
                ctl.register(key)
                gate[i].wait()
                try:
                    if spec.get('raw'):
                        got = spec['raw'](self.net, 2000, lambda: gate[i + 1].set())
                        self.client_results[key] = 'raw: ' + repr(got)
                    else:
                        c = client_mod.Client(player=spec['seat'], team_name=spec['team'], bidding_system=spec['bidding'],
                                              playing_system=spec['playing'], ip_address='fake', port=2000)
                        with c:
                            c.run()
                        self.client_results[key] = 'End of session'
                except SessionAborted:
                    pass
                except BaseException as e:
                    self.client_results[key] = 'exception: ' + repr(e)
                    gate[i + 1].set()
                finally:
                    with ctl.lock:
                        ctl.finished.add(key)
                        ctl.progress += 1
                        ctl.lock.notify_all()
            for i, spec in enumerate(self.clients):
                threads.append(threading.Thread(target=client_main, args=(i, spec), daemon=True, name=f'verif-client-{i}'))
            for t in threads:
                t.start()
            # watchdog
            t0 = time.time()
            last, last_t = -1, time.time()
            while True:
                time.sleep(0.05)
                with ctl.lock:
                    p = ctl.progress
                    alldone = 'main' in ctl.finished and all(f'cl{i}' in ctl.finished for i in range(len(self.clients)))
                if alldone:
                    self.result['completed'] = True
                    break
                if p != last:
                    last, last_t = p, time.time()
                elif time.time() - last_t > self.idle_s:
                    self.result['completed'] = False
                    self.result['stalled'] = True
                    break
                if time.time() - t0 > self.max_s:
                    self.result['completed'] = False
                    self.result['timeout'] = True
                    break
        finally:
            if not self.result.get('completed'):
                # describe where everybody is, then tear the session down
                with ctl.lock:
                    self.result['blocked_at'] = {k: (dict(tr[-1]) if tr and not tr[-1].get('done') else None)
                                                 for k, tr in ctl.traces.items() if k not in ctl.finished}
                ctl.abort()
                for c, s in self.net.conns:
                    c.closed = s.closed = True
                for (mod, name), val in saved.items():
                    pass
                # break barriers so that threads inside the real Barrier.wait return
                import gc
                for o in gc.get_objects():
                    if isinstance(o, threading.Barrier):
                        try:
                            o.abort()
                        except Exception:
                            pass
            for t in threads:
                t.join(2.0)
            PT.start, PT.join, PT.is_alive, PT.run = real_start, real_join, real_alive, real_run
            PT.__init__ = real_init
            for (mod, name), val in saved.items():
                setattr(mod, name, val)
        self.result['replicas'] = replicas
        self.result['traces'] = {k: [dict(o) for o in tr] for k, tr in ctl.traces.items()}
        self.result['finished'] = sorted(ctl.finished)
        self.result['errors'] = list(ctl.errors)
        self.result['clients'] = dict(self.client_results)
        self.result['transcripts'] = {f'conn{i}': {'client_sent': c.sent_log, 'server_sent': s.sent_log,
                                                   'server_closed': s.closed, 'client_closed': c.closed}
                                      for i, (c, s) in enumerate(self.net.conns)}
        try:
            self.result['log_text'] = open(self.out_path).read()
        except OSError:
            self.result['log_text'] = None
        try:
            os.remove(self.out_path)
        except OSError:
            pass
        return self.result
