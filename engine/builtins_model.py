"""Models of the built-ins, standard-library and numpy calls that the repository's code makes on
symbolic values.  Each is the documented contract of the real function on the modelled domain."""
import ast
import copy as _copy
import enum
import operator
import re as _re
import types

import z3

from . import cards, sstr
from .symx import (AltObj, BoundSym, CardSet, Infeasible, MergeFail, Opaque, RaiseEx, SArr, SBool, SEnum, SInt,
                   SList, SLog, SObj, SStr, Sym, SymCallable, SymSetLiteral, Unsupported, enum_code, is_sym,
                   zbool, zenum, zint)

NOT_HANDLED = object()

try:
    import numpy as np
except ImportError:           # pragma: no cover
    np = None


def model_str(eng, v):
    """str(v) / f'{v}'"""
    if isinstance(v, (str, SStr)):
        return v
    if isinstance(v, SInt):
        return sstr.str_of_int(eng, v)
    if isinstance(v, SBool):
        return 'True' if eng.decide(v.z) else 'False'
    if isinstance(v, SEnum):
        m = v.cls.__dict__.get('__str__')
        if m is not None and isinstance(m, types.FunctionType):
            return eng.call_function(m, [v], {})
        return str(eng.concretize_enum(v))
    if isinstance(v, SObj):
        for c in v.cls.__mro__:
            if '__str__' in c.__dict__ and isinstance(c.__dict__['__str__'], types.FunctionType):
                return eng.call_function(c.__dict__['__str__'], [v], {})
        return f'<{v.cls.__name__}>'
    if isinstance(v, Opaque):
        return v
    if isinstance(v, Sym):
        raise Unsupported(f'str of {type(v).__name__}')
    if isinstance(v, enum.Enum) and eng.always_interpret:
        m = type(v).__dict__.get('__str__')
        if m is not None and isinstance(m, types.FunctionType) and m.__module__.startswith(eng.repo_prefix):
            return eng.call_function(m, [v], {})
    if is_sym(v):
        if isinstance(v, (list, tuple)):
            return '<container>'
    return str(v)


def _len(eng, a):
    from .symx import GuardedList as _GL
    if isinstance(a, _GL):
        return SInt(z3.Sum([z3.If(g, 1, 0) if g is not None else z3.IntVal(1) for g, _ in a.items]) if a.items else z3.IntVal(0))
    if isinstance(a, CardSet):
        return SInt(a.n)
    if isinstance(a, SLog):
        return SInt(a.base + len(a.app))
    if isinstance(a, SList):
        return SInt(a.n)
    if isinstance(a, SArr):
        return len(a.items)
    if isinstance(a, SStr):
        return len(a.chars)
    if isinstance(a, SObj):
        for c in a.cls.__mro__:
            if '__len__' in c.__dict__:
                return eng.call_function(c.__dict__['__len__'], [a], {})
    if isinstance(a, Sym):
        raise Unsupported(f'len of {type(a).__name__}')
    return len(a)


def _sorted(eng, it, key=None, reverse=False):
    if isinstance(reverse, Sym):
        reverse = eng.truth(reverse)
    reverse = bool(reverse)
    if isinstance(it, CardSet):
        # Card order agrees with the card index (checked by C15): the sorted list is the universe
        # order restricted to the set; represented as a SortedCards view used by joins/filters
        return SortedCards(it, reverse)
    if isinstance(it, Sym):
        raise Unsupported('sorted of ' + type(it).__name__)
    items = list(it)
    keys = items if key is None else [eng.call(key, [x], {}) for x in items]
    if not any(is_sym(k) for k in keys):
        try:
            order = sorted(range(len(items)), key=lambda i: keys[i], reverse=reverse)
        except Exception as e:
            raise RaiseEx(e)
        return [items[i] for i in order]
    # symbolic keys: stable insertion sort deciding comparisons (objects: with the real __lt__)
    out = []
    for x, k in zip(items, keys):
        pos = len(out)
        for j, (y, ky) in enumerate(out):
            lt = _less(eng, ky, k) if reverse else _less(eng, k, ky)
            if eng.decide(lt) if not isinstance(lt, bool) else lt:
                pos = j
                break
        out.insert(pos, (x, k))
    return [x for x, _ in out]


def _less(eng, x, y):
    if isinstance(x, SObj) or isinstance(y, SObj):
        cls = x.cls if isinstance(x, SObj) else y.cls
        r = eng.call_function(cls.__lt__, [x, y], {})
        return zbool(r) if isinstance(r, Sym) else bool(r)
    if isinstance(x, (SInt, int)) and isinstance(y, (SInt, int)):
        return zint(x) < zint(y)
    raise Unsupported('ordering of symbolic values')


class SortedCards(Sym):
    """sorted(list(CardSet)): the universe order restricted to the set"""

    def __init__(s, cs, reverse):
        s.cs, s.reverse = cs, reverse


def call_builtin(eng, fn, args, kwargs):
    from .symx import GuardedList as _GL
    a0 = args[0] if args else None
    if fn is type and len(args) == 1 and not kwargs:
        o = args[0]
        if isinstance(o, SObj):
            return o.cls
        if isinstance(o, SEnum):
            return o.cls
        if isinstance(o, sstr.SBytes):
            return bytes
        if isinstance(o, SStr):
            return str
        if isinstance(o, SInt):
            return int
        if isinstance(o, SBool):
            return bool
        if isinstance(o, Sym):
            raise Unsupported('type() of ' + type(o).__name__)
        return type(o)
    if fn is len:
        return _len(eng, a0)
    if fn is isinstance:
        o, t = args
        if isinstance(o, SObj):
            ts = t if isinstance(t, tuple) else (t,)
            return any(isinstance(x, type) and issubclass(o.cls, x) for x in ts)
        if isinstance(o, SEnum):
            ts = t if isinstance(t, tuple) else (t,)
            if o.opt:
                if eng.decide(o.z == 0):
                    return isinstance(None, t)
            return any(isinstance(x, type) and issubclass(o.cls, x) for x in ts)
        if isinstance(o, SInt):
            ts = t if isinstance(t, tuple) else (t,)
            return int in ts or object in ts
        if isinstance(o, SBool):
            ts = t if isinstance(t, tuple) else (t,)
            return bool in ts or int in ts
        if isinstance(o, SStr):
            ts = t if isinstance(t, tuple) else (t,)
            return (bytes if isinstance(o, sstr.SBytes) else str) in ts
        if isinstance(o, CardSet):
            ts = t if isinstance(t, tuple) else (t,)
            return set in ts
        if isinstance(o, Sym):
            raise Unsupported('isinstance of ' + type(o).__name__)
        return isinstance(o, t)
    if fn is str:
        if not args:
            return ''
        return model_str(eng, a0)
    if fn is repr and isinstance(a0, Sym):
        return '<repr>'
    if fn is int:
        if isinstance(a0, (str, SStr)) and (isinstance(a0, SStr) or eng.always_interpret):
            return sstr.to_int(eng, a0)
        if isinstance(a0, SInt):
            return a0
        if isinstance(a0, SBool):
            return SInt(z3.If(a0.z, 1, 0))
        if isinstance(a0, SObj):
            for c in a0.cls.__mro__:
                if '__int__' in c.__dict__:
                    return eng.call_function(c.__dict__['__int__'], [a0], {})
        if isinstance(a0, Sym):
            raise Unsupported('int of ' + type(a0).__name__)
        if eng.always_interpret and hasattr(type(a0), '__int__') and \
                getattr(type(a0).__int__, '__module__', '').startswith(eng.repo_prefix):
            return eng.call_function(type(a0).__int__, [a0], {})
        return NOT_HANDLED
    if fn is bool:
        return eng.truth(a0) if args else False
    if fn is abs and isinstance(a0, SInt):
        return SInt(z3.If(a0.z >= 0, a0.z, -a0.z))
    if fn in (tuple, list) and isinstance(a0, _GL):
        if all(g is None for g, _ in a0.items):
            return fn(v for _, v in a0.items)
        return a0
    if fn is tuple:
        if not args:
            return ()
        if isinstance(a0, SortedCards):
            raise Unsupported('tuple of sorted cardset')
        if isinstance(a0, SLog):
            snap = SLog(a0.base)          # an immutable snapshot of the log as it is now
            snap.app = list(a0.app)
            return snap
        if isinstance(a0, Sym):
            raise Unsupported('tuple of ' + type(a0).__name__)
        return tuple(a0)
    if fn is list:
        if not args:
            return []
        if isinstance(a0, CardSet):
            return a0              # only ever passed on to sorted()/random.choice in this code base
        if isinstance(a0, SStr):
            return [SStr([c]) for c in a0.chars]
        if isinstance(a0, Sym):
            raise Unsupported('list of ' + type(a0).__name__)
        return list(a0)
    if fn is set:
        if not args:
            # every set in this code base is a set of cards
            return CardSet([z3.BoolVal(False)] * 52, z3.IntVal(0))
        if isinstance(a0, CardSet):
            return a0.copy()
        if isinstance(a0, _GL):
            cs = CardSet([z3.BoolVal(False)] * 52, z3.IntVal(0))
            for g, v in a0.items:
                if not cards.is_card(v):
                    raise Unsupported('set() of guarded non-cards')
                if g is not None:
                    eng.under_guard(g, lambda v=v: cards.add(eng, cs, v))
                else:
                    cards.add(eng, cs, v)
            return cs
        items = list(a0)
        if items and all(cards.is_card(x) for x in items) and any(isinstance(x, Sym) for x in items):
            return cards.cardset_from_symbolic_cards(eng, items)
        if any(isinstance(x, Sym) for x in items):
            raise Unsupported('set of symbolic values')
        return set(items)
    if fn is dict and not is_sym(args) and not is_sym(kwargs):
        return NOT_HANDLED
    if fn is sorted:
        return _sorted(eng, a0, **kwargs)
    if fn is enumerate:
        if isinstance(a0, Sym):
            raise Unsupported('enumerate symbolic')
        return list(enumerate(*args))
    if fn is zip:
        return list(zip(*[list(a) for a in args]))
    if fn is map:
        f, it = args[0], args[1]
        if isinstance(it, (CardSet, SortedCards, _GL)):
            fr = _frame_for(eng)
            return _GL([(g, eng.call(f, [x], {})) for g, x in fr.iterate(it)])
        return [eng.call(f, [x], {}) for x in it]
    if fn is range:
        if any(isinstance(a, Sym) for a in args):
            vals = [eng.concretize_int(a, -1, eng.loop_bound + 2) for a in args]
            return range(*vals)
        return range(*args)
    from .symx import GuardedList as _GL
    if (fn is all or fn is any) and isinstance(a0, _GL):
        zs = []
        for g, x in a0.items:
            zx = zbool(x) if isinstance(x, (SBool, SInt, bool, int)) else z3.BoolVal(eng.truth(x))
            gg = g if g is not None else z3.BoolVal(True)
            zs.append(z3.Implies(gg, zx) if fn is all else z3.And(gg, zx))
        if not zs:
            return fn is all
        return SBool(z3.And(zs) if fn is all else z3.Or(zs))
    if fn is sum and isinstance(a0, _GL):
        return SInt(z3.Sum([z3.If(g, zint(x), 0) if g is not None else zint(x) for g, x in a0.items]) if a0.items else z3.IntVal(0))
    if fn is divmod and any(isinstance(a, Sym) for a in args):
        import ast as _ast
        return (binop(_frame_for(eng), _ast.FloorDiv(), args[0], args[1]), binop(_frame_for(eng), _ast.Mod(), args[0], args[1]))
    if fn is getattr and isinstance(a0, Sym) and isinstance(args[1], str):
        try:
            return _frame_for(eng).getattr(a0, args[1])
        except RaiseEx as e:
            if len(args) > 2 and isinstance(e.exc, AttributeError):
                return args[2]
            raise
    if fn is hasattr and isinstance(a0, Sym) and isinstance(args[1], str):
        try:
            _frame_for(eng).getattr(a0, args[1])
            return True
        except RaiseEx as e:
            if isinstance(e.exc, AttributeError):
                return False
            raise
    if fn is setattr and isinstance(a0, SObj) and isinstance(args[1], str):
        a0.attrs[args[1]] = args[2]
        return None
    import operator as _op
    if isinstance(fn, _op.attrgetter) or isinstance(fn, _op.itemgetter):
        spec = fn.__reduce__()[1]
        fr = _frame_for(eng)
        if isinstance(fn, _op.attrgetter):
            def one(name):
                v = a0
                for part in name.split('.'):
                    v = fr.getattr(v, part)
                return v
            vals = tuple(one(n) for n in spec)
        else:
            vals = tuple(fr.getitem(a0, k) for k in spec)
        return vals[0] if len(vals) == 1 else vals
    import dataclasses as _dc
    if fn is _dc.replace and isinstance(a0, SObj):
        new = SObj(a0.cls, dict(a0.attrs))
        new.attrs.update(kwargs)
        post = getattr(a0.cls, '__post_init__', None)
        if post is not None:
            eng.call_function(post, [new], {})
        return new
    if fn is all or fn is any:
        items = list(a0)
        zs = []
        for x in items:
            if isinstance(x, (SBool, SInt)):
                zs.append(zbool(x))
            elif isinstance(x, Sym):
                zs.append(z3.BoolVal(eng.truth(x)))
            else:
                if fn is all and not x:
                    return False
                if fn is any and x:
                    return True
        if not zs:
            return fn is all
        return SBool(z3.And(zs) if fn is all else z3.Or(zs))
    if fn is next:
        default = args[1] if len(args) > 1 else NOT_HANDLED
        if isinstance(a0, list):
            if a0:
                return a0[0]
            if default is NOT_HANDLED:
                raise RaiseEx(StopIteration())
            return default
        if isinstance(a0, _GL):
            # first element that is present; all elements must be mergeable with the default
            r = default
            if r is NOT_HANDLED:
                raise Unsupported('next() of a guarded collection without a default')
            try:
                for g, x in reversed(a0.items):
                    r = x if g is None else eng.ite(g, x, r)
                return r
            except MergeFail:
                # values of different shapes (e.g. str and None): decide which element is the first one present
                for g, x in a0.items:
                    if g is None or eng.decide(g):
                        return x
                return default
    if fn in (min, max) and 'key' in kwargs and len(args) == 1 and isinstance(a0, _GL):
        keyf = kwargs['key']
        best = kb = None
        have = z3.BoolVal(False)
        for g, x in a0.items:
            gg = g if g is not None else z3.BoolVal(True)
            kx = eng.call(keyf, [x], {})
            if best is None:
                best, kb = x, kx
            else:
                better = (zint(kx) > zint(kb)) if fn is max else (zint(kx) < zint(kb))
                take = z3.And(gg, z3.Or(z3.Not(have), better))
                best, kb = eng.ite(take, x, best), eng.ite(take, kx, kb)
            have = z3.Or(have, gg)
        if best is None or not eng.decide(have):
            raise RaiseEx(ValueError('max() arg is an empty sequence'))
        return best
    if fn in (min, max) and 'key' in kwargs:
        items = list(args) if len(args) > 1 else list(a0)
        if not items:
            raise RaiseEx(ValueError('max() arg is an empty sequence'))
        keyf = kwargs['key']
        best, kb = items[0], eng.call(keyf, [items[0]], {})
        for x in items[1:]:
            kx = eng.call(keyf, [x], {})
            better = (zint(kx) > zint(kb)) if fn is max else (zint(kx) < zint(kb))
            better = z3.simplify(better)
            if z3.is_true(better) or (not z3.is_false(better) and eng.decide(better)):
                best, kb = x, kx
        return best
    if fn is dict and not any(isinstance(a, Sym) for a in args):
        try:
            return dict(*[list(a) if not isinstance(a, dict) else a for a in args], **kwargs)
        except (TypeError, ValueError) as e:
            raise RaiseEx(e)
    if fn in (min, max) and any(isinstance(a, Sym) for a in (args if len(args) > 1 else list(a0))):
        items = list(args) if len(args) > 1 else list(a0)
        r = zint(items[0])
        for x in items[1:]:
            zx = zint(x)
            r = z3.If(zx < r, zx, r) if fn is min else z3.If(zx > r, zx, r)
        return SInt(r)
    if fn is sum and is_sym(a0):
        r = z3.IntVal(0)
        for x in a0:
            r = r + zint(x)
        return SInt(r)
    if fn is print:
        return None
    if fn is id and len(args) == 1:
        return id(a0)            # identity of the model object stands for the identity of the object it models
    if fn is hash and isinstance(a0, Sym):
        raise Unsupported('hash of symbolic')
    # numpy
    if np is not None:
        if fn is np.asarray and isinstance(a0, SArr):
            return a0                      # no copy: the same array
        if fn in (np.array, np.copy) and isinstance(a0, SArr):
            return SArr(list(a0.items))
        if fn is np.array and isinstance(a0, (list, tuple)) and any(isinstance(x, Sym) for x in a0):
            return SArr([x if isinstance(x, (int, float)) else zint(x) for x in a0])
        if fn is np.ones or fn is np.zeros:
            n = a0
            if isinstance(n, int):
                return SArr([1 if fn is np.ones else 0] * n)
        if fn is np.full and isinstance(a0, int) and len(args) >= 2 and isinstance(args[1], (int, bool, SInt)):
            # 1-D vector of mathematical integers (the width of the dtype is not modelled)
            return SArr([args[1] if isinstance(args[1], int) else zint(args[1])] * a0)
        if fn is np.where or fn is np.nonzero or fn is np.flatnonzero:
            cond = a0
            if isinstance(cond, SArr):
                # condition vector of 0/1 Int terms; result = (indices present under guards,)
                out = []
                for i, c in enumerate(cond.items):
                    z = z3.simplify(zint(c) != 0)
                    if z3.is_false(z):
                        continue
                    out.append((None if z3.is_true(z) else z, i))
                from .symx import GuardedList
                if any(g is not None for g, _ in out):
                    return GuardedList(out) if fn is np.flatnonzero else (GuardedList(out),)
                return [i for _, i in out] if fn is np.flatnonzero else ([i for _, i in out],)
            return NOT_HANDLED
    pat = getattr(fn, '__self__', None)
    if isinstance(pat, _re.Pattern) and (any(isinstance(a, SStr) for a in args) or eng.always_interpret):
        # methods of a compiled pattern: same model as the module-level functions, flags taken from the pattern
        flags = pat.flags & ~_re.UNICODE
        name = fn.__name__
        if name in ('match', 'fullmatch'):
            return sstr.re_match(eng, pat.pattern, args[0], flags, full=name == 'fullmatch')
        if name == 'search':
            return sstr.re_search(eng, pat.pattern, args[0], flags)
        if name == 'findall':
            return sstr.re_findall(eng, pat.pattern, args[0], flags)
        if name == 'sub':
            return sstr.re_sub(eng, pat.pattern, args[0], args[1], kwargs.get('count', args[2] if len(args) > 2 else 0), flags)
        raise Unsupported('compiled pattern method ' + name)
    import bisect as _bisect
    if fn in (_bisect.bisect_right, _bisect.bisect, _bisect.bisect_left) and len(args) == 2 and not kwargs and \
            isinstance(args[1], (SInt,)) and not isinstance(a0, Sym) and all(isinstance(v, int) for v in a0):
        # documented contract on a sorted list: number of elements <= x (bisect_right) / < x (bisect_left)
        if list(a0) != sorted(a0):
            raise Unsupported('bisect on an unsorted list')
        x = args[1].z
        if fn is _bisect.bisect_left:
            return SInt(z3.Sum([z3.If(z3.IntVal(v) < x, 1, 0) for v in a0]) if a0 else z3.IntVal(0))
        return SInt(z3.Sum([z3.If(z3.IntVal(v) <= x, 1, 0) for v in a0]) if a0 else z3.IntVal(0))
    import itertools as _it
    if fn is _it.groupby:
        items = list(a0) if not isinstance(a0, Sym) else None
        if items is None:
            raise Unsupported('groupby over a symbolic collection')
        keyf = kwargs.get('key', args[1] if len(args) > 1 else None)
        out = []
        for x in items:
            k = eng.call(keyf, [x], {}) if keyf is not None else x
            if isinstance(k, SEnum):
                k = eng.concretize_enum(k)
            if isinstance(k, Sym):
                raise Unsupported('groupby with a symbolic key')
            if out and out[-1][0] == k:
                out[-1][1].append(x)
            else:
                out.append((k, [x]))
        return out
    # copy
    if fn is _copy.deepcopy:
        return deepcopy(eng, a0, args[1] if len(args) > 1 and isinstance(args[1], dict) else kwargs.get('memo'))
    if fn is _copy.copy:
        return shallowcopy(a0)
    # re
    if fn is _re.match or fn is _re.fullmatch:
        if isinstance(args[1], SStr) or isinstance(args[0], SStr) or eng.always_interpret:
            return sstr.re_match(eng, args[0], args[1], _flags(args, kwargs, 2), full=fn is _re.fullmatch)
        return NOT_HANDLED
    if fn is _re.search:
        if isinstance(args[1], SStr) or isinstance(args[0], SStr) or eng.always_interpret:
            return sstr.re_search(eng, args[0], args[1], _flags(args, kwargs, 2))
        return NOT_HANDLED
    if fn is _re.findall:
        if isinstance(args[1], SStr) or isinstance(args[0], SStr) or eng.always_interpret:
            return sstr.re_findall(eng, args[0], args[1], _flags(args, kwargs, 2))
        return NOT_HANDLED
    if fn is _re.sub:
        if any(isinstance(a, SStr) for a in args[:3]) or eng.always_interpret:
            cnt = kwargs.get('count', args[3] if len(args) > 3 else 0)
            return sstr.re_sub(eng, args[0], args[1], args[2], cnt, _flags(args, kwargs, 4))
        return NOT_HANDLED
    return NOT_HANDLED


def _frame_for(eng):
    """a frame object to reach the attribute / item / arithmetic models from a builtin"""
    from .symx import Frame
    fr = object.__new__(Frame)
    fr.eng, fr.clsname, fr.locs, fr.globs, fr.closure = eng, None, {}, {}, {}
    return fr


def _flags(args, kwargs, pos):
    if 'flags' in kwargs:
        return int(kwargs['flags'])
    if len(args) > pos:
        return int(args[pos])
    return 0


def deepcopy(eng, v, memo=None):
    memo = {} if memo is None else memo
    if id(v) in memo:
        return memo[id(v)]
    if isinstance(v, SObj):
        import inspect as _inspect
        hook = _inspect.getattr_static(v.cls, '__deepcopy__', None)
        if isinstance(hook, types.FunctionType):
            # the class copies itself: its own __deepcopy__ is interpreted
            r = eng.call_function(hook, [v, memo], {})
            memo[id(v)] = r
            return r
        o = SObj(v.cls, {})
        memo[id(v)] = o
        for k, x in v.attrs.items():
            o.attrs[k] = deepcopy(eng, x, memo)
        return o
    if isinstance(v, CardSet):
        r = v.copy()
    elif isinstance(v, SArr):
        r = SArr(list(v.items))
    elif isinstance(v, SList):
        r = SList(v.cls, v.arr, v.n)
    elif isinstance(v, SLog):
        r = SLog(v.base)
        r.app = [deepcopy(eng, x, memo) for x in v.app]
    elif isinstance(v, Sym):
        r = v          # immutable symbolic scalars / strings
    elif isinstance(v, list):
        r = []
        memo[id(v)] = r
        r.extend(deepcopy(eng, x, memo) for x in v)
        return r
    elif isinstance(v, dict):
        r = {}
        memo[id(v)] = r
        for k, x in v.items():
            r[k] = deepcopy(eng, x, memo)
        return r
    elif isinstance(v, tuple):
        r = tuple(deepcopy(eng, x, memo) for x in v)
        if hasattr(v, '_fields'):
            r = type(v)(*r)
    elif isinstance(v, set):
        r = set(v)
    else:
        r = _copy.deepcopy(v)
    memo[id(v)] = r
    return r


def shallowcopy(v):
    if isinstance(v, SObj):
        return SObj(v.cls, dict(v.attrs))
    if isinstance(v, CardSet):
        return v.copy()
    if isinstance(v, SArr):
        return SArr(list(v.items))
    return _copy.copy(v)


# --------------------------------------------------------------------------
# methods of symbolic values
# --------------------------------------------------------------------------
def sym_method(frame, o, a):
    eng = frame.eng
    if isinstance(o, AltObj):
        def apply(*args):
            for g, obj in o.alts:
                eng.under_guard(g, lambda obj=obj: eng.call(sym_method(frame, obj, a), list(args), {}))
            return None
        if a in ('add', 'discard'):
            return SymCallable(apply)
        raise Unsupported('method ' + a + ' on one-of-several objects')
    from .symx import GuardedList as _GL2
    if isinstance(o, _GL2):
        if a == 'tolist':
            return SymCallable(lambda: o)
        raise Unsupported('GuardedList.' + a)
    if isinstance(o, SortedCards):
        raise Unsupported('SortedCards.' + a)
    if isinstance(o, CardSet):
        if a in ('union', 'intersection', 'difference', 'symmetric_difference'):
            k = {'union': 'or', 'intersection': 'and', 'difference': 'sub', 'symmetric_difference': 'xor'}[a]
            return SymCallable(lambda other: cardset_op(eng, k, o, other))
        if a in ('issubset', 'issuperset', 'isdisjoint'):
            def rel(other):
                B = _as_cardset(eng, other)
                if B is None:
                    raise Unsupported('set relation with ' + type(other).__name__)
                if a == 'issubset':
                    return SBool(z3.And([z3.Implies(x, y) for x, y in zip(o.bits, B.bits)]))
                if a == 'issuperset':
                    return SBool(z3.And([z3.Implies(y, x) for x, y in zip(o.bits, B.bits)]))
                return SBool(z3.Not(z3.Or([z3.And(x, y) for x, y in zip(o.bits, B.bits)])))
            return SymCallable(rel)
        if a == 'remove':
            return SymCallable(lambda c: cards.remove(eng, o, c))
        if a == 'add':
            return SymCallable(lambda c: cards.add(eng, o, c))
        if a == 'discard':
            return SymCallable(lambda c: cards.discard(eng, o, c))
        if a == 'copy':
            return SymCallable(lambda: o.copy())
        raise Unsupported('CardSet.' + a)
    if isinstance(o, SLog):
        if a == 'append':
            def app(v):
                if eng.guards:
                    raise MergeFail('append under guard')
                o.app.append(v)
            return SymCallable(app)
        raise Unsupported('SLog.' + a)
    if isinstance(o, SList):
        if a == 'append':
            def app(v):
                zv = zenum(v)
                g = eng.guard()
                if g is None:
                    o.arr = z3.Store(o.arr, o.n, zv)
                    o.n = o.n + 1
                else:
                    o.arr = z3.If(g, z3.Store(o.arr, o.n, zv), o.arr)
                    o.n = z3.If(g, o.n + 1, o.n)
            return SymCallable(app)
        raise Unsupported('SList.' + a)
    if isinstance(o, SStr):
        return str_method(eng, o, a)
    if isinstance(o, SArr):
        if a == 'copy':
            return SymCallable(lambda: SArr(list(o.items)))
        if a == 'tolist':
            return SymCallable(lambda: [x if isinstance(x, (int, float)) else SInt(x) for x in o.items])
        if a == 'shape':
            return (len(o.items),)
        raise Unsupported('SArr.' + a)
    if isinstance(o, sstr.SMatch):
        return getattr(o, a)
    if isinstance(o, Opaque):
        raise Unsupported('attribute of opaque value: ' + a)
    raise Unsupported(f'attribute {a} of {type(o).__name__}')


def str_method(eng, o, a):
    S = SymCallable
    if a == 'lower':
        return S(lambda: sstr.lower(o))
    if a == 'upper':
        return S(lambda: sstr.upper(o))
    if a == 'capitalize':
        return S(lambda: sstr.capitalize(o))
    if a == 'split':
        return S(lambda sep=None, maxsplit=-1: sstr.split(eng, o, sep, maxsplit))
    if a == 'strip':
        return S(lambda ch=None: sstr.lstrip(eng, sstr.rstrip(eng, o, ch), ch))
    if a == 'lstrip':
        return S(lambda ch=None: sstr.lstrip(eng, o, ch))
    if a == 'rstrip':
        return S(lambda ch=None: sstr.rstrip(eng, o, ch))
    if a == 'find':
        return S(lambda sub, start=0: sstr.find(eng, o, sub, start))
    if a == 'replace':
        return S(lambda old, new: sstr.replace(eng, o, old, new))
    if a == 'casefold':
        return S(lambda: sstr.lower(o))
    if a in ('removesuffix', 'removeprefix'):
        def rem(p):
            t = sstr.endswith(o, p) if a == 'removesuffix' else sstr.startswith(o, p)
            n = len(sstr.chars_of(p))
            if t is False or n == 0:
                return o
            if t is True or eng.decide(t):
                ch = sstr.chars_of(o)
                return sstr.mk(ch[:len(ch) - n] if a == 'removesuffix' else ch[n:], o)
            return o
        return S(rem)
    if a in ('partition', 'rpartition'):
        def part(sep):
            ch, sp = sstr.chars_of(o), sstr.chars_of(sep)
            rng = range(len(ch) - len(sp) + 1)
            for i in (rng if a == 'partition' else reversed(rng)):
                e = sstr.eq(SStr(ch[i:i + len(sp)]), SStr(sp))
                if e is True or (e is not False and eng.decide(e)):
                    return (sstr.mk(ch[:i], o), sep, sstr.mk(ch[i + len(sp):], o))
            return (o, '', '') if a == 'partition' else ('', '', o)
        return S(part)
    if a == 'startswith':
        return S(lambda p: _b(sstr.startswith(o, p)))
    if a == 'endswith':
        return S(lambda p: _b(sstr.endswith(o, p)))
    if a == 'join':
        return S(lambda items: sstr.join(eng, o, list(items)))
    if a == 'encode':
        return S(lambda enc='utf-8': sstr.encode(eng, o))
    if a == 'decode':
        return S(lambda enc='utf-8': sstr.decode(eng, o))
    if a == 'isupper':
        def isupper():
            ch = sstr.chars_of(o)
            cased_up = [z3.And(c >= 65, c <= 90) if not isinstance(c, int) else z3.BoolVal(chr(c).isupper()) for c in ch]
            cased_lo = [z3.And(c >= 97, c <= 122) if not isinstance(c, int) else z3.BoolVal(chr(c).islower()) for c in ch]
            return SBool(z3.And(z3.Or(cased_up), z3.Not(z3.Or(cased_lo)))) if ch else False
        return S(isupper)
    if a in ('isdigit', 'isdecimal', 'isnumeric', 'isalpha', 'isalnum', 'isspace', 'islower'):
        def pred():
            ch = sstr.chars_of(o)
            if not ch:
                return False
            tests = {
                'isdigit': lambda c: z3.And(c >= 48, c <= 57), 'isdecimal': lambda c: z3.And(c >= 48, c <= 57),
                'isnumeric': lambda c: z3.And(c >= 48, c <= 57),
                'isalpha': lambda c: z3.Or(z3.And(c >= 65, c <= 90), z3.And(c >= 97, c <= 122)),
                'isalnum': lambda c: z3.Or(z3.And(c >= 48, c <= 57), z3.And(c >= 65, c <= 90), z3.And(c >= 97, c <= 122)),
                'isspace': lambda c: z3.Or([c == w for w in sstr.WS]),
            }
            if a == 'islower':
                up = [z3.And(c >= 65, c <= 90) if not isinstance(c, int) else z3.BoolVal(chr(c).isupper()) for c in ch]
                lo = [z3.And(c >= 97, c <= 122) if not isinstance(c, int) else z3.BoolVal(chr(c).islower()) for c in ch]
                return SBool(z3.And(z3.Or(lo), z3.Not(z3.Or(up))))
            # ASCII model of the predicate (symbolic characters beyond ASCII are outside the claim)
            conds = []
            for c in ch:
                if isinstance(c, int):
                    if not getattr(chr(c), a)():
                        return False
                else:
                    conds.append(z3.And(c < 128, tests[a](c)))
            return SBool(z3.And(conds)) if conds else True
        return S(pred)
    if a == 'format':
        raise Unsupported('str.format on a symbolic template')
    raise Unsupported('str.' + a)


def _b(z):
    return z if isinstance(z, bool) else SBool(z)


def concrete_method(frame, o, a):
    """methods of concrete str/list objects that may receive symbolic arguments"""
    eng = frame.eng
    if isinstance(o, (str, bytes)):
        if a == 'join':
            def join(items):
                items = list(items)
                if any(isinstance(x, SStr) for x in items):
                    return sstr.join(eng, o, items)
                return o.join(items)
            return SymCallable(join)
        if a == 'format' and isinstance(o, str):
            def fmt(*fa, **fk):
                if not (any(isinstance(x, Sym) for x in fa) or any(isinstance(x, Sym) for x in fk.values())):
                    return o.format(*fa, **fk)
                import string as _string
                parts, auto = [], 0
                for lit, field, spec, conv in _string.Formatter().parse(o):
                    parts.append(lit)
                    if field is None:
                        continue
                    if spec or conv or any(ch in field for ch in '.['):
                        raise Unsupported('str.format field with spec/conversion/attribute on symbolic values')
                    if field == '':
                        v = fa[auto]
                        auto += 1
                    elif field.isdigit():
                        v = fa[int(field)]
                    else:
                        v = fk[field]
                    parts.append(model_str(eng, v))
                return sstr.concat(eng, parts)
            return SymCallable(fmt)
        if a in ('replace', 'split', 'find', 'startswith', 'endswith') :
            def meth(*args, **kw):
                if any(isinstance(x, SStr) for x in args):
                    so = SStr(sstr.chars_of(o))
                    return eng.call(str_method(eng, so, a), list(args), kw)
                return getattr(o, a)(*args, **kw)
            return SymCallable(meth)
        if eng.always_interpret and a in ('lower', 'upper', 'capitalize', 'split', 'lstrip', 'rstrip',
                                          'strip', 'find', 'encode', 'decode') and isinstance(o, str):
            so = SStr(sstr.chars_of(o))
            return str_method(eng, so, a)
        return NOT_HANDLED
    if isinstance(o, list):
        if a == 'append' and eng.guards:
            raise MergeFail('append under guard')
        if a == 'index':
            def index(v):
                for i, x in enumerate(o):
                    r = values_equal(eng, x, v)
                    if r is True or (r is not False and eng.decide(r)):
                        return i
                raise RaiseEx(ValueError('not in list'))
            return SymCallable(index)
        return NOT_HANDLED
    if isinstance(o, dict):
        if a == 'get':
            def get(k, default=None):
                try:
                    return frame.getitem(o, k)
                except RaiseEx as e:
                    if isinstance(e.exc, KeyError):
                        return default
                    raise
            return SymCallable(get)
        return NOT_HANDLED
    return NOT_HANDLED


# --------------------------------------------------------------------------
# comparisons and arithmetic
# --------------------------------------------------------------------------
def values_equal(eng, a, b):
    """python bool or z3 Bool for a == b"""
    if isinstance(a, (SEnum, enum.Enum)) or isinstance(b, (SEnum, enum.Enum)) or \
            (a is None and isinstance(b, SEnum)) or (b is None and isinstance(a, SEnum)):
        if not isinstance(a, SEnum) and not isinstance(b, SEnum):
            return a == b
        if not isinstance(a, SEnum):
            a, b = b, a
        if b is None:
            return (a.z == 0) if a.opt else False
        if isinstance(b, SEnum):
            return (a.z == b.z) if a.cls is b.cls else False
        if isinstance(b, enum.Enum):
            return (a.z == enum_code(b)) if type(b) is a.cls else False
        return False
    if isinstance(a, (SStr, str, bytes)) and isinstance(b, (SStr, str, bytes)):
        if isinstance(a, (bytes, sstr.SBytes)) != isinstance(b, (bytes, sstr.SBytes)):
            return False
        return sstr.eq(a, b)
    if isinstance(a, SObj) or isinstance(b, SObj):
        return obj_equal(eng, a, b)
    if isinstance(a, (SBool, bool)) and isinstance(b, (SBool, bool)):
        return zbool(a) == zbool(b)
    if isinstance(a, CardSet) and isinstance(b, CardSet):
        return cards.equal(a, b)
    if isinstance(a, CardSet) or isinstance(b, CardSet):
        cs, other = (a, b) if isinstance(a, CardSet) else (b, a)
        if isinstance(other, (set, frozenset)):
            want = {cards.card_idx(c) for c in other}
            return z3.And([bit if i in want else z3.Not(bit) for i, bit in enumerate(cs.bits)])
        return False
    if isinstance(a, (SInt, SBool)) or isinstance(b, (SInt, SBool)):
        if a is None or b is None or isinstance(a, (str, SStr)) or isinstance(b, (str, SStr)):
            return False
        if isinstance(a, (SEnum, enum.Enum)) or isinstance(b, (SEnum, enum.Enum)):
            return False
        try:
            return zint(a) == zint(b)
        except Unsupported:
            return False
    if isinstance(a, (tuple, list)) and isinstance(b, (tuple, list)) and type(a) is type(b) or \
            (isinstance(a, tuple) and isinstance(b, tuple)):
        if len(a) != len(b):
            return False
        conds = []
        for x, y in zip(a, b):
            r = values_equal(eng, x, y)
            if r is False:
                return False
            if r is not True:
                conds.append(r)
        return z3.And(conds) if conds else True
    if isinstance(a, dict) and isinstance(b, dict):
        if set(a) != set(b):
            return False
        conds = []
        for k in a:
            r = values_equal(eng, a[k], b[k])
            if r is False:
                return False
            if r is not True:
                conds.append(r)
        return z3.And(conds) if conds else True
    if isinstance(a, Sym) or isinstance(b, Sym):
        if isinstance(a, Opaque) and isinstance(b, Opaque):
            return a is b
        return False
    return a == b


def obj_equal(eng, a, b):
    import dataclasses
    if isinstance(a, SObj) and isinstance(b, SObj):
        ca, cb = a.cls, b.cls
    elif isinstance(a, SObj):
        ca, cb = a.cls, type(b)
    else:
        ca, cb = type(a), b.cls
    if ca is not cb:
        return False
    if dataclasses.is_dataclass(ca) and '__eq__' in ca.__dict__ and \
            not isinstance(ca.__dict__['__eq__'], types.FunctionType) or dataclasses.is_dataclass(ca):
        conds = []
        for f in dataclasses.fields(ca):
            if not f.compare:
                continue
            x = a.attrs[f.name] if isinstance(a, SObj) else getattr(a, f.name)
            y = b.attrs[f.name] if isinstance(b, SObj) else getattr(b, f.name)
            r = values_equal(eng, x, y)
            if r is False:
                return False
            if r is not True:
                conds.append(r)
        return z3.And(conds) if conds else True
    for c in ca.__mro__:
        if '__eq__' in c.__dict__ and isinstance(c.__dict__['__eq__'], types.FunctionType):
            r = eng.call_function(c.__dict__['__eq__'], [a, b], {})
            return zbool(r) if isinstance(r, Sym) else bool(r)
    return a is b


def compare(frame, op, a, b):
    eng = frame.eng
    if isinstance(op, (ast.Is, ast.IsNot)):
        if isinstance(a, SEnum) or isinstance(b, SEnum):
            r = values_equal(eng, a, b)
        elif isinstance(a, (SBool,)) or isinstance(b, (SBool,)):
            if isinstance(a, (SBool, bool)) and isinstance(b, (SBool, bool)):
                r = zbool(a) == zbool(b)
            else:
                r = False
        elif isinstance(a, SInt) or isinstance(b, SInt):
            # identity of ints: only `is None`-style tests appear in the code base
            if a is None or b is None:
                r = False
            else:
                raise Unsupported('identity comparison of symbolic ints')
        elif isinstance(a, Sym) or isinstance(b, Sym):
            r = a is b
        else:
            r = a is b
        if isinstance(op, ast.IsNot):
            r = (not r) if isinstance(r, bool) else z3.Not(r)
        return r if isinstance(r, bool) else SBool(r)
    if isinstance(op, (ast.Eq, ast.NotEq)) and (isinstance(a, SArr) != isinstance(b, SArr)):
        arr, other = (a, b) if isinstance(a, SArr) else (b, a)
        zo = zint(other)
        if isinstance(op, ast.Eq):
            return SArr([z3.If(zint(x) == zo, 1, 0) for x in arr.items])
        return SArr([z3.If(zint(x) != zo, 1, 0) for x in arr.items])
    if isinstance(op, (ast.Eq, ast.NotEq)):
        if not isinstance(a, Sym) and not isinstance(b, Sym) and not is_sym(a) and not is_sym(b):
            try:
                r = (a == b)
            except Exception as e:
                raise RaiseEx(e)
            if not isinstance(r, bool):
                raise Unsupported('non-bool ==')
        else:
            r = values_equal(eng, a, b)
        if isinstance(op, ast.NotEq):
            r = (not r) if isinstance(r, bool) else z3.Not(r)
        return r if isinstance(r, bool) else SBool(r)
    if isinstance(op, (ast.In, ast.NotIn)):
        r = contains(frame, b, a)
        if isinstance(op, ast.NotIn):
            r = (not r) if isinstance(r, bool) else z3.Not(r)
        return r if isinstance(r, bool) else SBool(r)
    # ordering
    if isinstance(a, CardSet) and isinstance(b, CardSet):
        sub = z3.And([z3.Implies(x, y) for x, y in zip(a.bits, b.bits)])
        sup = z3.And([z3.Implies(y, x) for x, y in zip(a.bits, b.bits)])
        eqv = z3.And([x == y for x, y in zip(a.bits, b.bits)])
        return SBool({ast.LtE: sub, ast.GtE: sup, ast.Lt: z3.And(sub, z3.Not(eqv)), ast.Gt: z3.And(sup, z3.Not(eqv))}[type(op)])
    if isinstance(a, SObj) or isinstance(b, SObj):
        name = {ast.Lt: '__lt__', ast.LtE: '__le__', ast.Gt: '__gt__', ast.GtE: '__ge__'}[type(op)]
        cls = a.cls if isinstance(a, SObj) else b.cls
        return eng.call_function(getattr(cls, name), [a, b], {})
    if isinstance(a, Sym) or isinstance(b, Sym):
        za, zb = zint(a), zint(b)
        table = {ast.Lt: lambda: za < zb, ast.LtE: lambda: za <= zb, ast.Gt: lambda: za > zb,
                 ast.GtE: lambda: za >= zb}
        return SBool(table[type(op)]())
    table = {ast.Lt: operator.lt, ast.LtE: operator.le, ast.Gt: operator.gt, ast.GtE: operator.ge}
    if eng.always_interpret and cards.is_card(a):
        name = {ast.Lt: '__lt__', ast.LtE: '__le__', ast.Gt: '__gt__', ast.GtE: '__ge__'}[type(op)]
        return eng.call_function(getattr(type(a), name), [a, b], {})
    f = table[type(op)]
    try:
        return f(a, b)
    except Exception as e:
        raise RaiseEx(e)


def contains(frame, container, x):
    eng = frame.eng
    from .symx import GuardedList as _GL3
    if isinstance(container, _GL3):
        alts = []
        for g, v in container.items:
            r = values_equal(eng, v, x)
            if r is False:
                continue
            gg = g if g is not None else z3.BoolVal(True)
            alts.append(gg if r is True else z3.And(gg, r))
        return z3.Or(alts) if alts else False
    if isinstance(container, CardSet):
        if not cards.is_card(x):
            return False
        return cards.member(container, x)
    if isinstance(container, SymSetLiteral):
        container = container.items
    if isinstance(container, (SStr, str)) and isinstance(x, (SStr, str)):
        if isinstance(container, str) and isinstance(x, str):
            return x in container
        return sstr.contains(container, x)
    if isinstance(container, dict) and (isinstance(x, SInt) or any(isinstance(kk, (SInt, SStr)) for kk in container) or
                                        (isinstance(x, SStr) and not x.is_concrete()) or
                                        isinstance(x, tuple) and any(isinstance(e, Sym) for e in x) or
                                        any(isinstance(kk, tuple) and any(isinstance(e, Sym) for e in kk)
                                            for kk in container)):
        return frame._dict_find(container, x) is not None
    if isinstance(container, dict):
        if isinstance(x, SEnum):
            alts = [x.z == enum_code(k) for k in container if isinstance(k, x.cls)]
            return z3.Or(alts) if alts else False
        if isinstance(x, SStr):
            alts = []
            for k in container:
                if isinstance(k, str):
                    r = sstr.eq(x, k)
                    if r is True:
                        return True
                    if r is not False:
                        alts.append(r)
            return z3.Or(alts) if alts else False
        if isinstance(x, Sym):
            raise Unsupported('in dict with symbolic key')
        return x in container
    if isinstance(container, (list, tuple, set, frozenset)):
        if not is_sym(x) and not is_sym(container):
            try:
                return x in container
            except Exception as e:
                raise RaiseEx(e)
        alts = []
        for k in container:
            r = values_equal(eng, k, x)
            if r is True:
                return True
            if r is not False:
                alts.append(r)
        return z3.Or(alts) if alts else False
    if isinstance(container, SObj):
        for c in container.cls.__mro__:
            if '__contains__' in c.__dict__:
                return eng.call_function(c.__dict__['__contains__'], [container, x], {})
    if isinstance(container, Sym):
        raise Unsupported('in ' + type(container).__name__)
    return x in container


def _as_cardset(eng, v):
    if isinstance(v, CardSet):
        return v
    if isinstance(v, (set, frozenset, list, tuple)) and all(cards.is_card(x) for x in v):
        if any(isinstance(x, Sym) for x in v):
            return cards.cardset_from_symbolic_cards(eng, list(v))
        return cards.cardset_from_cards(eng, list(v))
    return None


def cardset_op(eng, kind, a, b):
    """set algebra on 52-bit sets; the size term of the result is fresh with the cheap axioms and obvious bounds"""
    A, B = _as_cardset(eng, a), _as_cardset(eng, b)
    if A is None or B is None:
        raise Unsupported('set operation between a card set and ' + type(b if A is not None else a).__name__)
    f = {'and': lambda x, y: z3.And(x, y), 'or': lambda x, y: z3.Or(x, y), 'sub': lambda x, y: z3.And(x, z3.Not(y)),
         'xor': lambda x, y: z3.Xor(x, y)}[kind]
    bits = [z3.simplify(f(x, y)) for x, y in zip(A.bits, B.bits)]
    n = eng.fresh('setsize')
    r = CardSet(bits, n)
    eng.assume(r.axioms())
    if kind in ('and', 'sub'):
        eng.assume(n <= A.n)
    if kind == 'and':
        eng.assume(n <= B.n)
    if kind == 'or':
        eng.assume(z3.And(n >= A.n, n >= B.n, n <= A.n + B.n))
    return r


def binop(frame, op, a, b):
    eng = frame.eng
    if isinstance(a, CardSet) or isinstance(b, CardSet):
        kinds = {ast.BitAnd: 'and', ast.BitOr: 'or', ast.Sub: 'sub', ast.BitXor: 'xor'}
        if type(op) in kinds:
            return cardset_op(eng, kinds[type(op)], a, b)
    if isinstance(op, ast.Add) and (isinstance(a, (SStr,)) or isinstance(b, (SStr,))):
        return sstr.concat(eng, [a, b])
    if isinstance(op, ast.Add) and isinstance(a, (str, bytes)) and isinstance(b, (str, bytes)):
        return a + b
    if isinstance(op, ast.Mult) and isinstance(a, list) and isinstance(b, int):
        return a * b
    if not isinstance(a, Sym) and not isinstance(b, Sym):
        table = {ast.Add: operator.add, ast.Sub: operator.sub, ast.Mult: operator.mul,
                 ast.FloorDiv: operator.floordiv, ast.Mod: operator.mod, ast.Div: operator.truediv,
                 ast.BitOr: operator.or_, ast.BitAnd: operator.and_, ast.Pow: operator.pow, ast.BitXor: operator.xor,
                 ast.LShift: operator.lshift, ast.RShift: operator.rshift, ast.MatMult: operator.matmul}
        f = table[type(op)]
        try:
            return f(a, b)
        except Exception as e:
            raise RaiseEx(e)
    from .symx import GuardedList as _GLb
    if isinstance(op, ast.Add) and (isinstance(a, _GLb) or isinstance(b, _GLb)) and \
            all(isinstance(x, (_GLb, list)) for x in (a, b)):
        # concatenation of lists whose elements are present under guards
        ia = a.items if isinstance(a, _GLb) else [(None, x) for x in a]
        ib = b.items if isinstance(b, _GLb) else [(None, x) for x in b]
        return _GLb(list(ia) + list(ib))
    if isinstance(a, (list, tuple)) or isinstance(b, (list, tuple)):
        if isinstance(op, ast.Add):
            return a + b
        raise Unsupported('sequence arithmetic')
    za, zb = zint(a), zint(b)
    if isinstance(op, ast.Add):
        return SInt(za + zb)
    if isinstance(op, ast.Sub):
        return SInt(za - zb)
    if isinstance(op, ast.Mult):
        return SInt(za * zb)
    if isinstance(op, ast.FloorDiv):
        # Python floor division; z3 integer div is Euclidean: they agree for a positive divisor
        if isinstance(b, int) and b > 0:
            return SInt(za / zb)
        if isinstance(b, int) and b < 0:
            return SInt((-za) / z3.IntVal(-b))
        if not eng.decide(zb != 0):
            raise RaiseEx(ZeroDivisionError())
        return SInt(z3.If(zb > 0, za / zb, (-za) / (-zb)))
    if isinstance(op, ast.Mod):
        if isinstance(b, int) and b > 0:
            return SInt(za % zb)
        if isinstance(b, int) and b < 0:
            return SInt(-((-za) % z3.IntVal(-b)))
        if not eng.decide(zb != 0):
            raise RaiseEx(ZeroDivisionError())
        return SInt(z3.If(zb > 0, za % zb, -((-za) % (-zb))))
    raise Unsupported(f'binop {type(op).__name__} on symbolic values')
