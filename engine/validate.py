"""Translator validation: the interpreter in CONCRETE mode (always_interpret: every repository statement is executed by
the interpreter, all inputs concrete) must agree with CPython running the real code on results, raised exception types
and final object state; the regular-expression model must agree with `re`.  Inputs are seeded random runs through the
public API plus the repository's own test files.  A disagreement is a harness error (exit 2), never a verdict.
Each function returns the number of executions compared."""
import random
import re

from . import common, sstr, symx
from .symx import CardSet, SArr, SEnum, SInt, SObj, SStr, Sym


class Mismatch(Exception):
    pass


def norm(v):
    """comparable form of a value produced by either side"""
    import enum
    if isinstance(v, SArr):
        return [int(x) if not hasattr(x, 'as_long') else x.as_long() for x in v.items]
    if isinstance(v, SStr):
        return v.concrete()
    if isinstance(v, CardSet):
        import z3
        from . import cards
        out = []
        for i, b in enumerate(v.bits):
            sb = z3.simplify(b) if hasattr(b, 'sexpr') else b
            if z3.is_true(sb) or sb is True:
                out.append(str(norm(cards.CARDS[i])))
            elif not (z3.is_false(sb) or sb is False):
                raise Mismatch('symbolic set in a concrete-mode run')
        return sorted(out)
    if isinstance(v, SObj):
        return (v.cls.__name__, {k: norm(x) for k, x in sorted(v.attrs.items())})
    if isinstance(v, enum.Enum):
        return (type(v).__name__, v.name)
    if isinstance(v, dict):
        return {str(norm(k)): norm(x) for k, x in v.items()}
    if isinstance(v, (list, tuple)):
        return [norm(x) for x in v]
    if isinstance(v, (set, frozenset)):
        return sorted(str(norm(x)) for x in v)
    if hasattr(v, 'tolist'):
        return [int(x) for x in v.tolist()]
    if hasattr(v, '__dict__') and type(v).__module__.startswith('bridge_env'):
        return (type(v).__name__, {k: norm(x) for k, x in sorted(vars(v).items())})
    return v


def both(eng, fn, args_real, args_int, kwargs=None):
    """run fn natively and interpreted; compare outcome; returns ('ret', value) / ('raise', type)"""
    kwargs = kwargs or {}
    try:
        r = ('ret', fn(*args_real, **kwargs))
    except Exception as e:
        r = ('raise', type(e).__name__)
    try:
        i = ('ret', eng.call_function(fn, list(args_int), kwargs))
    except symx.RaiseEx as e:
        i = ('raise', type(e.exc).__name__)
    if r[0] != i[0] or (r[0] == 'raise' and r[1] != i[1]) or (r[0] == 'ret' and norm(r[1]) != norm(i[1])):
        raise Mismatch(f'{getattr(fn, "__qualname__", fn)}: CPython {r[0]} {norm(r[1]) if r[0] == "ret" else r[1]!r} '
                       f'vs interpreter {i[0]} {norm(i[1]) if i[0] == "ret" else i[1]!r}')
    return r


def _engine():
    common.setup_path()
    eng = symx.Engine(always_interpret=True)
    eng.snapshot_modules()
    import z3
    eng.solver = z3.Solver()
    eng.decisions, eng.pos, eng.pending = [], 0, []
    return eng


def auctions(n=40, seed=0):
    from bridge_env import Bid, BiddingPhase, Player, Vul
    rnd = random.Random(seed)
    eng = _engine()
    count = 0
    for _ in range(n):
        d, v = Player(rnd.randint(1, 4)), Vul(rnd.randint(1, 4))
        real = BiddingPhase(d, v)
        interp = eng.construct(BiddingPhase, [d, v], {})
        for step in range(rnd.randint(4, 30)):
            b = Bid(rnd.randint(1, 38)) if rnd.random() < 0.5 else rnd.choice([Bid.Pass, Bid.Pass, Bid.X, Bid.XX, Bid(rnd.randint(1, 35))])
            both(eng, BiddingPhase.take_bid, [real, b], [interp, b])
            both(eng, BiddingPhase.contract, [real], [interp])
            if norm({k.split('__')[-1]: x for k, x in vars(real).items()}) != norm({k.split('__')[-1]: x for k, x in interp.attrs.items()}):
                raise Mismatch('BiddingPhase state differs after take_bid')
            count += 2
    return count


def plays(n=12, seed=0):
    from bridge_env import Bid, Card, Contract, Hands, Player, PlayingPhaseWithHands, Suit, Vul
    rnd = random.Random(seed)
    eng = _engine()
    count = 0
    for _ in range(n):
        pack = [Card(i % 13 + 2, Suit(i // 13 + 1)) for i in range(52)]
        rnd.shuffle(pack)
        mk = lambda: Hands(*[set(pack[13 * j:13 * j + 13]) for j in range(4)])
        c = Contract(Bid(rnd.randint(1, 35)), vul=Vul(rnd.randint(1, 4)), declarer=Player(rnd.randint(1, 4)))
        real = PlayingPhaseWithHands(c, mk())
        interp = eng.construct(PlayingPhaseWithHands, [c, mk()], {})
        while not real.has_done():
            seat = real.active_player if rnd.random() < 0.85 else Player(rnd.randint(1, 4))
            hand = sorted(real.hands[seat], key=int)
            card = rnd.choice(hand) if hand and rnd.random() < 0.9 else rnd.choice(pack)
            both(eng, PlayingPhaseWithHands.play_card_by_player, [real, card, seat], [interp, card, seat])
            both(eng, PlayingPhaseWithHands.current_available_cards_in_hand, [real, seat], [interp, seat])
            a, b = norm(vars(real)), norm(interp.attrs)
            if a != b:
                raise Mismatch(f'PlayingPhaseWithHands state differs after play: {[k for k in a if a.get(k) != b.get(k)]}')
            count += 2
    return count


def scores(n=400, seed=0):
    from bridge_env import Bid, Contract, Player, Vul, score
    rnd = random.Random(seed)
    eng = _engine()
    for _ in range(n):
        c = Contract(Bid(rnd.randint(1, 35)), x=rnd.random() < 0.4, xx=rnd.random() < 0.2, vul=Vul(rnd.randint(1, 4)),
                     declarer=Player(rnd.randint(1, 4)))
        t = rnd.randint(0, 13)
        both(eng, score.calc_score, [c, t], [c, t])
        d = rnd.randint(-9000, 9000)
        both(eng, score.point_difference_to_imps, [d], [d])
    return 2 * n


def converters(seed=0):
    from bridge_env import Bid, Card, Contract, Player, Suit, Vul
    eng = _engine()
    count = 0
    for i in range(52):
        c = Card(i % 13 + 2, Suit(i // 13 + 1))
        both(eng, Card.__str__, [c], [c])
        both(eng, Card.__int__, [c], [c])
        both(eng, Card.str_to_card.__func__, [Card, str(c)], [Card, str(c)])
        both(eng, Card.int_to_card.__func__, [Card, i], [Card, i])
        count += 4
    for b in Bid:
        both(eng, Bid.__str__, [b], [b])
        both(eng, Bid.str_to_bid.__func__, [Bid, str(b)], [Bid, str(b)])
        count += 2
        if b.value <= 35:
            for st in ((False, False), (True, False), (True, True)):
                c = Contract(b, x=st[0], xx=st[1], vul=Vul.NS, declarer=Player.E)
                both(eng, Contract.__str__, [c], [c])
                both(eng, Contract.str_to_contract.__func__, [Contract, str(c), Vul.NS, Player.E], [Contract, str(c), Vul.NS, Player.E])
                count += 2
    for s in ('None', 'Love', '-', 'NS', 'EW', 'All', 'Both', 'bad'):
        both(eng, Vul.str_to_vul.__func__, [Vul, s], [Vul, s])
        count += 1
    return count


def messages(n=150, seed=0):
    """protocol text: builders and parsers of both ends on concrete values (every regular expression of the protocol code runs
    through the regex model here)"""
    from bridge_env import Bid, Card, Player, Suit
    from bridge_env.network_bridge.client import Client
    from bridge_env.network_bridge.server import PlayerThread, Server
    from bridge_env.network_bridge.socket_interface import MessageInterface
    rnd = random.Random(seed)
    eng = _engine()
    count = 0

    def mangle(s):
        return ''.join(ch.swapcase() if rnd.random() < 0.3 else ch for ch in s)
    for _ in range(n):
        p = Player(rnd.randint(1, 4))
        b = Bid(rnd.randint(1, 38))
        m = mangle(Client.create_bid_message(b, p.formal_name)) + rnd.choice(['', ' Alert.', '  alert. '])
        both(eng, Server.remove_alert_word, [m], [m])
        m2 = Server.remove_alert_word(m)
        both(eng, MessageInterface.parse_bid, [m2, p.formal_name], [m2, p.formal_name])
        c = Card(rnd.randint(2, 14), Suit(rnd.randint(1, 4)))
        m = mangle(f'{p.formal_name} plays {rnd.choice([Client.card_str(c), str(c)])}')
        both(eng, MessageInterface.parse_card, [m, p], [m, p])
        pack = [Card(i % 13 + 2, Suit(i // 13 + 1)) for i in range(52)]
        hand = set(rnd.sample(pack, rnd.choice([0, 1, 4, 13, 13])))
        both(eng, Server.hand_to_str, [hand], [set(hand)])
        t = Server.hand_to_str(hand)
        both(eng, Client.parse_hand, [t], [t])
        both(eng, Client.parse_cards, [f"{p.formal_name}'s cards : {t}", p.formal_name], [f"{p.formal_name}'s cards : {t}", p.formal_name])
        h = f'Board number {rnd.randint(1, 9999)}. Dealer {p.formal_name}. {rnd.choice(["Neither", "N/S", "E/W", "Both", "Nobody"])} vulnerable.'
        both(eng, Client.parse_board, [h], [h])
        team = ''.join(rnd.choice('ab "Z9.') for _ in range(rnd.randint(0, 4)))
        line = mangle(f'Connecting "{team}" as {p.formal_name} using protocol version {rnd.randint(0, 30)}')
        both(eng, PlayerThread.parse_connection_info, [line], [line])
        tl = f'Teams : N/S : "{team}" E/W : "x{team}"'
        both(eng, Client.parse_team_names, [tl], [tl])
        count += 9
    return count


def pbn_files(seed=0):
    """the repository's own PBN test files and rendered variants through the real and the interpreted parser"""
    import glob
    import io
    import os
    from bridge_env.data_handler.pbn_handler.parser import PbnParser
    eng = _engine()
    count = 0
    files = sorted(glob.glob(os.path.join(common.REPO, 'tests', 'data_handler', 'pbn_handler', 'source', '*.pbn')))
    for f in files:
        text = open(f).read()
        for variant in (text, text.replace('\n', '\r\n'), '\n\n' + text + '\n\n\n'):
            lines = variant.splitlines(keepends=True)
            real = PbnParser().parse_all(io.StringIO(variant, newline=''))
            interp = eng.call_function(PbnParser.parse_all, [eng.construct(PbnParser, [], {}), lines], {})
            if norm(real) != norm(interp):
                raise Mismatch(f'PbnParser.parse_all differs on {os.path.basename(f)}')
            count += 1
    return count


def regex_model(n=3000, seed=0):
    """the regular-expression model against `re` on every pattern of the repository x random strings over the pattern's own
    alphabet (spans and groups of match / fullmatch / search / findall)"""
    import z3
    from bridge_env import hands
    from bridge_env.data_handler.pbn_handler.parser import PbnParser
    rnd = random.Random(seed)
    eng = _engine()
    pats = [(hands.HAND_PATTERN, 0), (hands.DEAL_PATTERN, 0), (PbnParser.TAG_PATTERN, 0), (PbnParser.REPLACE_PATTERN, 0),
            (r'North bids (\d)(C|D|H|S|NT)', re.I), (r'North (.*)', re.I), (r'West plays (.*)', re.I),
            (r'Connecting "(.*)" as (.*) using protocol version (\d+)', re.I), (r'Teams : N/S : "(.*)".? E/W : "(.*)"', re.I),
            (r'Board number (\d+)\. Dealer (.*)\. (.*) vulnerable\.', re.I), (r'S (.*)\. H (.*)\. D (.*)\. C (.*)\.\s?', re.I),
            (r'\s+Alert\.\s*', re.I), (r"North's cards : (.*)", re.I), (r'(.*) to lead', re.I), (r'% PBN (\d+)\.(\d+)', 0),
            (r'North\s+ready\s+for\s+teams', re.I)]
    count = 0
    for pat, fl in pats:
        alpha = sorted(set(ch for ch in pat if ch.isalnum() or ch in ' ."\'[]:/-')) + list(' .\n\t"2AKQs')
        seeds = [pat.replace('\\', '').replace('(.*)', 'x y').replace('(\\d+)', '12')]
        for _ in range(n // len(pats)):
            s = ''.join(rnd.choice(alpha) for _ in range(rnd.randint(0, 24))) if rnd.random() < 0.7 else \
                ''.join(rnd.choice(seeds) for _ in range(1))[:rnd.randint(0, 40)]
            for name, rf, mf in (('match', re.match, lambda: sstr.re_match(eng, pat, s, fl)),
                                 ('fullmatch', re.fullmatch, lambda: sstr.re_match(eng, pat, s, fl, full=True)),
                                 ('search', re.search, lambda: sstr.re_search(eng, pat, s, fl))):
                a = rf(pat, s, fl)
                b = mf()
                if (a is None) != (b is None) or (a is not None and (a.span() != b.span() or a.groups() != tuple(b.groups()))):
                    raise Mismatch(f'regex model differs from re.{name} on pattern {pat!r} string {s!r}')
                count += 1
            if re.findall(pat, s, fl) != sstr.re_findall(eng, pat, s, fl):
                raise Mismatch(f'regex model differs from re.findall on pattern {pat!r} string {s!r}')
            count += 1
    return count


def idioms():
    """language constructs (engine/idioms.py) in CPython and in the interpreter"""
    import copy
    import z3
    from . import idioms as mod
    eng = symx.Engine(repo_prefix='engine.idioms', always_interpret=True)
    eng.solver = z3.Solver()
    eng.decisions, eng.pos, eng.pending = [], 0, []
    count = 0
    for fn, argsets in mod.CASES:
        for args in argsets:
            both(eng, fn, copy.deepcopy(args), copy.deepcopy(args))
            count += 1
    return count


def realize(v, m):
    """the concrete Python value a (possibly symbolic) interpreter value takes in the model m"""
    import enum
    import z3
    from .symx import SBool, GuardedList

    def ev(z):
        return m.eval(z, model_completion=True)
    if isinstance(v, SInt):
        return ev(v.z).as_long()
    if isinstance(v, SBool):
        return z3.is_true(ev(v.z))
    if isinstance(v, SEnum):
        code = ev(v.z).as_long()
        if code == 0:
            return None
        return [x for x in v.cls if symx.enum_code(x) == code][0]
    if isinstance(v, SStr):
        return ''.join(chr(c if isinstance(c, int) else ev(c).as_long()) for c in v.chars)
    if isinstance(v, GuardedList):
        return [realize(x, m) for g, x in v.items if g is None or z3.is_true(ev(g))]
    if isinstance(v, SObj):
        return (v.cls.__name__, {k: realize(x, m) for k, x in sorted(v.attrs.items())})
    if isinstance(v, Sym):
        raise Mismatch('cannot realize ' + type(v).__name__)
    if isinstance(v, tuple):
        return tuple(realize(x, m) for x in v)
    if isinstance(v, list):
        return [realize(x, m) for x in v]
    if isinstance(v, dict):
        return {realize(k, m): realize(x, m) for k, x in v.items()}
    if isinstance(v, (set, frozenset)):
        return {realize(x, m) for x in v}
    if isinstance(v, enum.Enum) or v is None or isinstance(v, (int, str, bytes, bool, float)):
        return v
    if hasattr(v, '__dict__'):
        return (type(v).__name__, {k: realize(x, m) for k, x in sorted(vars(v).items())})
    return v


def symbolic_idioms():
    """engine/idioms_sym.py: symbolic exploration over a small domain against CPython on every point of the domain"""
    import itertools
    import z3
    from . import idioms_sym as mod
    from .symx import SBool
    count = 0
    for fn, domains in mod.SYM_CASES:
        eng = symx.Engine(repo_prefix='engine.idioms_sym')
        zs = []
        for i, d in enumerate(domains):
            zs.append(z3.Bool(f'a{i}') if d[0] == 'bool' else z3.Int(f'a{i}'))

        def one(eng):
            args = []
            for z, d in zip(zs, domains):
                if d[0] == 'int':
                    eng.assume(z3.And(d[1] <= z, z <= d[2]))
                    args.append(SInt(z))
                elif d[0] == 'bool':
                    args.append(SBool(z))
                else:
                    eng.assume(z3.And(1 <= z, z <= len(list(d[1]))))
                    args.append(SEnum(d[1], z))
            try:
                r = ('ret', eng.call_function(fn, args, {}))
            except symx.RaiseEx as e:
                r = ('raise', type(e.exc).__name__)
            return list(eng.pc), r
        paths = eng.explore(one)
        ranges = [range(d[1], d[2] + 1) if d[0] == 'int' else ([False, True] if d[0] == 'bool' else list(d[1])) for d in domains]
        for point in itertools.product(*ranges):
            try:
                want = ('ret', fn(*point))
            except Exception as e:
                want = ('raise', type(e).__name__)
            fix = [z == (symx.enum_code(v) if d[0] == 'enum' else v) for z, v, d in zip(zs, point, domains)]
            hit = 0
            for pc, r in paths:
                s = z3.Solver()
                s.add(*pc)
                s.add(*fix)
                if s.check() != z3.sat:
                    continue
                hit += 1
                got = r if r[0] == 'raise' else ('ret', realize(r[1], s.model()))
                if norm(got[1]) != norm(want[1]) or got[0] != want[0]:
                    raise Mismatch(f'symbolic {fn.__name__}{point}: CPython {want} vs interpreter {got}')
            if hit == 0:
                raise Mismatch(f'symbolic {fn.__name__}{point}: no explored path covers this input')
            count += 1
    return count


def run(names, tier):
    """returns total number of compared executions; raises Mismatch"""
    scale = 3 if tier == 'thorough' else 1
    total = 0
    table = {'auctions': lambda: auctions(30 * scale, common.SEED), 'plays': lambda: plays(6 * scale, common.SEED),
             'scores': lambda: scores(300 * scale, common.SEED), 'converters': lambda: converters(common.SEED),
             'messages': lambda: messages(100 * scale, common.SEED), 'pbn_files': lambda: pbn_files(common.SEED),
             'regex_model': lambda: regex_model(2000 * scale, common.SEED)}
    table['idioms'] = idioms
    table['symbolic_idioms'] = symbolic_idioms
    for n in ['idioms', 'symbolic_idioms'] + [x for x in names if x not in ('idioms', 'symbolic_idioms')]:
        total += table[n]()
    return total
