"""Language idioms that behaviour-preserving refactorings of the repository use.  `validate.idioms` runs every function
here in CPython and in the interpreter (concrete mode) and compares the results: a translator-validation set for
constructs rather than for repository functions (each entry was a construct the interpreter once got wrong or lacked)."""
import itertools
import re
from operator import attrgetter, itemgetter


class Acc:
    def __init__(self):
        self.buf = []

    def stream(self, lines):
        for line in lines:
            if line == '':
                if self.buf:
                    yield ''.join(self.buf)
                self.buf = []
                continue
            self.buf.append(line)
        if self.buf:
            yield ''.join(self.buf)

    def boards(self, lines):
        # comprehension over a generator method with side effects: the iterable is evaluated exactly once
        return [dict(b=x) for x in self.stream(lines)]

    def board_set(self, lines):
        return sorted({x for x in self.stream(lines)})


def comp_over_generator(lines):
    return Acc().boards(lines), Acc().board_set(lines)


def starred_unpack(xs):
    first, *rest = xs
    *init, last = xs
    a, *mid, b = xs
    return first, rest, init, last, a, mid, b


def product_loop(n):
    out = []
    for t, i in itertools.product(range(1, n), range(4)):
        if i == 0:
            out.append(('lead', t))
        out.append((t, i))
    return out


def setdefault_first_wins(pairs):
    d = {}
    for k, v in pairs:
        d.setdefault(k, v)
    return d


def partition_forms(s):
    return s.partition('; '), s.rpartition('}'), s.partition('zz')


def getters(pairs):
    return [itemgetter(1, 0)(p) for p in pairs], sorted(pairs, key=itemgetter(1))


def named_groups(s):
    m = re.compile(r'(?P<a>\d+)\.(?P<b>\d+)').match(s)
    if m is None:
        return None
    return m['a'], m.group('b'), m.span(), m.groupdict()


def cond_expr_chain(x):
    return 'neg' if x < 0 else 'zero' if x == 0 else 'pos'


def tuple_compare(t, i):
    return (t, i) == (1, 0), (t, i) < (2, 0)


def dict_fromkeys_and_all(keys):
    d = dict.fromkeys(keys)
    return d, all(v is None for v in d.values()), any(v is not None for v in d.values())


def bytes_join(chunks):
    return b''.join(chunks).decode('utf-8'), '-'.join(c.decode() for c in chunks)


def iter_sentinel(items):
    it = iter(items)
    out = []
    for c in iter(lambda: next(it), 'stop'):
        out.append(c)
    return out


def chained_assign():
    a = b = []
    a.append(1)
    x, y, z = [], [], []
    x.append(2)
    return a, b, x, y, z


def membership_tuple(v):
    return v not in (None, 'a'), v in ('S', 'H', 'D', 'C')


def enumerate_zip(xs, ys):
    return [(i, a, b) for i, (a, b) in enumerate(zip(xs, ys), 1)], dict(zip(xs, ys))


CASES = [
    (comp_over_generator, [(['', 'a', 'b', '', 'c', '', 'd'],), (['a', '', '', 'b'],), ([],)]),
    (starred_unpack, [([1, 2, 3, 4],), ([1, 2],), ((7, 8, 9),)]),
    (product_loop, [(3,), (1,)]),
    (setdefault_first_wins, [([('a', 1), ('b', 2), ('a', 3)],), ([],)]),
    (partition_forms, [('ab; cd; ef}',), ('nothing',), ('}',)]),
    (getters, [([(1, 'b'), (2, 'a')],)]),
    (named_groups, [('12.5',), ('x',)]),
    (cond_expr_chain, [(-1,), (0,), (5,)]),
    (tuple_compare, [(1, 0), (1, 1), (2, 0)]),
    (dict_fromkeys_and_all, [(['n', 'e'],), ([],)]),
    (bytes_join, [([b'ab', b'c'],), ([],)]),
    (iter_sentinel, [(['a', 'b', 'stop', 'c'],)]),
    (chained_assign, [()]),
    (membership_tuple, [(None,), ('a',), ('S',), ('x',)]),
    (enumerate_zip, [(['a', 'b'], [1, 2]), ([], [])]),
]


def gen_aggregates(xs):
    return (any(x > 2 for x in xs), all(x > 0 for x in xs), sum(1 for x in xs if x % 2), sum(x * x for x in xs),
            next((x for x in xs if x > 2), None), max(xs, default=-1), min((x for x in xs), default=None))


def closures(n):
    def add(k):
        return lambda x: x + k + n
    fs = [add(i) for i in range(3)]
    total = 0

    def bump(v):
        nonlocal total
        total += v
        return total
    return [f(10) for f in fs], [bump(i) for i in range(4)], total


def try_forms(x):
    log = []
    try:
        log.append('try')
        if x == 0:
            raise ValueError('zero')
        if x == 1:
            raise KeyError('one')
        r = 10 // x
    except ValueError as e:
        log.append('value ' + str(e))
        r = -1
    except (KeyError, IndexError):
        log.append('key')
        r = -2
    else:
        log.append('else')
    finally:
        log.append('finally')
    return r, log


def while_else(xs, t):
    i = 0
    while i < len(xs):
        if xs[i] == t:
            found = i
            break
        i += 1
    else:
        found = None
    for j in range(3):
        if j == t:
            break
    else:
        j = -1
    return found, j


def walrus(xs):
    out = []
    i = 0
    while (n := len(out)) < len(xs):
        if (v := xs[n]) > 1:
            out.append(v)
        else:
            out.append(0)
    return out, n


def fstrings(name, n, x):
    return (f'{name!r} has {n:>3}|{n:03d}|{x:.2f}|{name:<6}|{name.upper()}', '{} and {!r} and {k}'.format(name, n, k=x),
            '%s-%d-%5.1f' % (name, n, x), f"{'dummy' if n else name}'s card")


def slices(s, xs):
    return s[::-1], s[1:-1], xs[::2], xs[-2:], xs[:-2], s[-1], xs[1:][0] if len(xs) > 1 else None


def aug_assign():
    d = {'a': 1}
    d['a'] += 2
    d.setdefault('b', []).append(3)
    xs = [1, 2, 3]
    xs[0] *= 5
    xs += [4]
    o = _O()
    o.v = 1
    o.v -= 4
    s = 'x'
    s += 'y' * 2
    return d, xs, o.v, s


class _O:
    pass


def collections_use(words):
    import collections
    c = collections.Counter(words)
    dd = collections.defaultdict(list)
    for w in words:
        dd[len(w)].append(w)
    dq = collections.deque(words)
    if dq:
        dq.rotate(1)
    return sorted(c.items()), dict(dd), list(dq)


def reduce_use(xs):
    import functools
    return functools.reduce(lambda a, b: a * 10 + b, xs, 0)


def zip_star(rows):
    return list(zip(*rows)), [list(r) for r in zip(*rows)], list(reversed(rows)), list(enumerate(rows))


def lambda_sort(pairs):
    return sorted(pairs, key=lambda p: (-p[1], p[0])), sorted(pairs, key=lambda p: p[1], reverse=True), max(pairs, key=lambda p: p[1])


class Shape:
    sides = 0

    def __init__(self, w):
        self._w = w

    @property
    def w(self):
        return self._w

    @w.setter
    def w(self, v):
        self._w = v * 2

    @classmethod
    def make(cls, w):
        return cls(w)

    @staticmethod
    def unit():
        return 1

    def area(self):
        return self.w * self.w * self.unit()


class Square(Shape):
    sides = 4

    def area(self):
        return super().area() + self.sides


def classes(w):
    a = Square.make(w)
    b = Shape(w)
    b.w = w
    return a.area(), b.area(), isinstance(a, Shape), type(b).__name__, Square.sides, getattr(a, 'nope', 'dflt'), hasattr(b, 'w')


def string_methods(s):
    return (s.split(), s.split(' ', 1), s.rsplit(' ', 1), s.strip(), s.lstrip('x'), s.title(), s.capitalize(), s.swapcase(),
            s.replace(' ', '_'), s.find('b'), s.rfind('b'), s.index('a') if 'a' in s else -1, s.count('a'), s.startswith(('a', 'x')),
            s.zfill(8), s.center(9, '*'), s.splitlines(), s.isalpha(), s.islower(), s.encode(), list(s), s * 2, s.casefold(),
            s.removeprefix('xa'), s.removesuffix('b '))


def int_ops(a, b):
    return (a // b, a % b, divmod(a, b), -a // b, -a % b, a ** 2, abs(-a), a / b == a // b, int('12') + int(' 7 '), round(a / b),
            a << 2, a >> 1, a & b, a | b, a ^ b, ~a, bool(a), min(a, b), max(a, b, 3), str(a) + repr(b), a == b, a != b, (a > b) - (a < b))


def dict_ops(d):
    e = dict(d)
    e.update(z=0)
    keys = list(e)
    popped = e.pop('z')
    missing = e.pop('nope', 'dflt')
    items = [(k, v) for k, v in e.items()]
    inv = {v: k for k, v in e.items()}
    merged = {**e, 'm': 1} | {'n': 2}
    return keys, popped, missing, items, inv, merged, e.get('a'), e.get('q', 5), 'a' in e, len(e), sorted(e.values())


def set_ops(a, b):
    sa, sb = set(a), set(b)
    return (sorted(sa | sb), sorted(sa & sb), sorted(sa - sb), sorted(sa ^ sb), sa <= sb, sa.isdisjoint(sb), len(sa), 1 in sa,
            sorted(frozenset(a)), sorted({x % 2 for x in a}))


def generators_misc(n):
    def count(k):
        i = 0
        while i < k:
            yield i
            i += 1

    def chain(*its):
        for it in its:
            yield from it
    return list(count(n)), list(chain(count(2), 'ab')), list(itertools.chain([1], [2, 3])), list(itertools.islice(count(10), 2, 5)), \
        list(itertools.accumulate([1, 2, 3])), [list(g) for _, g in itertools.groupby([1, 1, 2, 3, 3])], list(itertools.repeat('x', 2)), \
        list(itertools.zip_longest([1, 2], [3], fillvalue=0)), list(itertools.permutations([1, 2, 3], 2))[:3], list(itertools.combinations('abc', 2))


def early_returns(x):
    if x is None:
        return 'none'
    if not x:
        return 'empty'
    for c in x:
        if c == 'q':
            return 'q'
        elif c == 'z':
            continue
    return 'end'


def global_tables(k):
    return _TABLE.get(k, 'none'), _ORDER.index(k) if k in _ORDER else -1, k in _TABLE


_TABLE = {'a': 'A', 'b': 'B'}
_ORDER = ('b', 'a')


def star_calls(xs, kw):
    def f(a, b=2, *rest, c=3, **more):
        return a, b, rest, c, sorted(more.items())
    return f(*xs), f(*xs, **kw), f(1, c=9), f(*xs[:1], **{'z': 1})


def assert_and_raise(x):
    assert x != 3, 'three'
    if x == 4:
        raise RuntimeError('four')
    try:
        if x == 5:
            raise KeyError('five')
    except KeyError as e:
        raise ValueError('wrapped') from e
    return x


class _Ctx:
    def __init__(self, log):
        self.log = log

    def __enter__(self):
        self.log.append('enter')
        return self

    def __exit__(self, et, ev, tb):
        self.log.append('exit ' + (et.__name__ if et else 'clean'))
        return et is KeyError


def with_stmt(n):
    import io
    log = []
    with _Ctx(log) as c:
        log.append('body')
        if n == 1:
            raise KeyError('x')
    with io.StringIO() as f:
        f.write('a')
        f.write('b\n')
        v = f.getvalue()
    return log, v


CASES += [
    (gen_aggregates, [([1, 2, 3],), ([],), ([5, -1],)]),
    (closures, [(1,), (0,)]),
    (try_forms, [(0,), (1,), (2,)]),
    (while_else, [([1, 2, 3], 2), ([1, 2, 3], 9), ([], 0)]),
    (walrus, [([1, 2, 3],), ([],)]),
    (fstrings, [('ab', 5, 1.5), ('', 0, 2.25)]),
    (slices, [('abcd', [1, 2, 3, 4]), ('a', [1])]),
    (aug_assign, [()]),
    (collections_use, [(['a', 'bb', 'a', 'cc'],), ([],)]),
    (reduce_use, [([1, 2, 3],), ([],)]),
    (zip_star, [([[1, 2], [3, 4]],), ([],)]),
    (lambda_sort, [([('a', 1), ('b', 2), ('c', 1)],)]),
    (classes, [(2,), (0,)]),
    (string_methods, [('xa b ',), ('Hello World',), ('ab',)]),
    (int_ops, [(7, 2), (-7, 2), (6, 3), (0, 5)]),
    (dict_ops, [({'a': 1, 'b': 2},), ({},)]),
    (set_ops, [([1, 2, 3], [2, 3, 4]), ([], [1])]),
    (generators_misc, [(3,), (0,)]),
    (early_returns, [(None,), ('',), ('azq',), ('abc',)]),
    (global_tables, [('a',), ('b',), ('c',)]),
    (star_calls, [([1, 2, 3], {'c': 5, 'k': 1}), ([1], {})]),
    (assert_and_raise, [(1,), (3,), (4,), (5,)]),
    (with_stmt, [(0,), (1,)]),
]


class Node:
    def __init__(self, items, log):
        self.items = items
        self.log = log

    def __deepcopy__(self, memo):
        import copy
        clone = Node.__new__(Node)
        memo[id(self)] = clone
        clone.items = copy.deepcopy(self.items, memo)
        clone.log = self.log            # deliberately shared
        return clone


def deepcopy_hook(xs):
    import copy
    a = Node(list(xs), [])
    b = copy.deepcopy(a)
    b.items.append(99)
    b.log.append('b')
    return a.items, b.items, a.log, b.log, a.items is b.items, a.log is b.log


def filtered_concat(xs, ys, k):
    played = [x for x in xs if x % 2 == k]
    played += [y for y in ys if y % 2 == k]
    return len(played) >= 3, played, [x for x in xs if x > k] + [y for y in ys if y > k]


def np_full_write(n, v):
    import numpy as np
    a = np.full(n, -1)
    a[0] = v
    try:
        a[n] = v
        over = False
    except IndexError:
        over = True
    return (True if a[0] == v else False), (True if a[n - 1] == (v if n == 1 else -1) else False), over


CASES += [
    (deepcopy_hook, [([1, 2],), ([],)]),
    (filtered_concat, [([1, 2, 3, 4], [5, 6, 7], 1), ([], [2], 0)]),
    (np_full_write, [(3, 7), (1, 0)]),
]
