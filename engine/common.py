"""Plumbing shared by all checks: repo location, parallel case execution, evidence, replay, exit codes."""
import hashlib
import json
import multiprocessing as mp
import os
import subprocess
import sys
import time
import traceback

VERIF = os.path.dirname(os.path.dirname(os.path.abspath(__file__)))
REPO = os.environ.get('VERIF_REPO', '/repo')
REPLAY_PY = os.environ.get('VERIF_REPLAY_PY', '/venv/bin/python')
SEED = int(os.environ.get('VERIF_SEED', '0') or 0)

EXIT_OK, EXIT_VIOLATION, EXIT_INCONCLUSIVE = 0, 1, 2
REPLAY_WITH_TOOLING = {'C12', 'C17'}


def setup_path():
    if REPO not in sys.path:
        sys.path.insert(0, REPO)
    if VERIF not in sys.path:
        sys.path.insert(0, VERIF)
    import bridge_env
    here = os.path.realpath(os.path.dirname(bridge_env.__file__))
    want = os.path.realpath(os.path.join(REPO, 'bridge_env'))
    if here != want:
        raise RuntimeError(f'bridge_env imported from {here}, expected {want}')
    import logging
    logging.disable(logging.CRITICAL)
    from . import cards
    cards.init()


class CaseResult:
    """outcome of one case (one symbolic exploration = one group of solver queries)"""

    def __init__(self, name):
        self.name = name
        self.status = 'ok'            # ok | cex | inconclusive
        self.detail = ''
        self.cex = []                 # list of dicts (JSON-able counterexamples)
        self.stats = {}
        self.samples = []
        self.outcomes = {}            # outcome class -> count (vacuity guard)
        self.lines = []
        self.sources = {}
        self.wall = 0.0

    def to_json(self):
        return self.__dict__


def _run_case(args):
    fn, name, kwargs = args
    t = time.time()
    res = CaseResult(name)
    try:
        from . import symx
        symx.SOURCES_USED.clear()
        out = fn(**kwargs)
        if isinstance(out, CaseResult):
            out.name = name
            res = out
        else:
            res.detail = str(out)
        res.sources = dict(symx.SOURCES_USED)
    except Exception as e:   # engine limitation or harness error => inconclusive, never a pass
        res.status = 'inconclusive'
        res.detail = f'{type(e).__name__}: {e}\n' + traceback.format_exc()[-1500:]
    res.wall = round(time.time() - t, 3)
    return res


def run_cases(cases, jobs=None):
    """cases: list of (callable, name, kwargs). Runs them in forked worker processes."""
    jobs = jobs or int(os.environ.get('VERIF_JOBS', '0') or 0) or min(16, os.cpu_count() or 4)
    flt = os.environ.get('VERIF_CASE_FILTER')
    if flt and os.environ.get('VERIF_EVIDENCE_DIR'):
        # development only (mutant / seed runs with scratch evidence): run the cases whose name matches
        import re as _re
        cases = [c for c in cases if _re.search(flt, c[1])]
        print(f'NOTE: case filter {flt!r}: {len(cases)} case(s)')
    if len(cases) == 1 or jobs == 1:
        return [_run_case(c) for c in cases]
    ctx = mp.get_context('fork')
    with ctx.Pool(min(jobs, len(cases)), maxtasksperchild=1) as pool:
        return pool.map(_run_case, cases, chunksize=1)


def model_to_json(model, names=None):
    out = {}
    for d in model.decls():
        n = d.name()
        if names is not None and n not in names:
            continue
        v = model[d]
        try:
            import z3
            if z3.is_int_value(v):
                out[n] = v.as_long()
            elif z3.is_true(v):
                out[n] = True
            elif z3.is_false(v):
                out[n] = False
            else:
                out[n] = str(v)
        except Exception:
            out[n] = str(v)
    return out


# --------------------------------------------------------------------------
# known findings
# --------------------------------------------------------------------------
def known_findings(pid):
    p = os.path.join(VERIF, 'known_findings.json')
    if not os.path.exists(p):
        return []
    data = json.load(open(p))
    return [e for e in data.get('findings', []) if e.get('property') == pid and e.get('status') == 'open']


# --------------------------------------------------------------------------
# replay of counterexamples against the real code (under the repository's own interpreter)
# --------------------------------------------------------------------------
def write_replay(pid, cex):
    d = os.environ.get('VERIF_REPLAY_OUT') or os.path.join(VERIF, 'replay', 'out')
    os.makedirs(d, exist_ok=True)
    blob = json.dumps(cex, sort_keys=True, default=str)
    h = hashlib.sha1(blob.encode()).hexdigest()[:10]
    path = os.path.join(d, f'{pid}-{h}.json')
    with open(path, 'w') as f:
        f.write(blob)
    return path


def run_replay(pid, path, timeout=120):
    """returns (reproduced: bool|None, output). None = replayer failed to run"""
    script = os.path.join(VERIF, 'replay', 'replay.py')
    env = dict(os.environ, VERIF_REPO=REPO, PYTHONPATH=REPO)
    try:
        py = sys.executable if pid in REPLAY_WITH_TOOLING else REPLAY_PY      # schema replays need the jsonschema package
        p = subprocess.run([py, script, pid, path], capture_output=True, text=True, timeout=timeout, env=env)
    except subprocess.TimeoutExpired:
        return None, 'replay timed out'
    out = (p.stdout + p.stderr)[-4000:]
    if p.returncode == 1 and 'REPRODUCED: ' in p.stdout:
        return True, out
    if p.returncode == 0:
        return False, out
    return None, out


# --------------------------------------------------------------------------
# finishing a check: evidence + exit code
# --------------------------------------------------------------------------
def finish(pid, tier, level, results, t0, bounds, stubs, assumptions, rule, explanation,
           extra_cov=None, validated=0, required_outcomes=None):
    """results: list[CaseResult]. Writes evidence and returns the process exit code."""
    stats = {}
    for r in results:
        for k, v in (r.stats or {}).items():
            if isinstance(v, (int, float)):
                stats[k] = stats.get(k, 0) + v
    sources = {}
    outcomes = {}
    for r in results:
        sources.update(r.sources or {})
        for k, v in (r.outcomes or {}).items():
            outcomes[k] = outcomes.get(k, 0) + v
    inconclusive = [r for r in results if r.status == 'inconclusive']
    cexs = [(r, c) for r in results for c in r.cex]
    violations = []
    known_hit = []
    non_repro = []
    kf = known_findings(pid)
    for r, c in cexs:
        path = write_replay(pid, c)
        ok, out = run_replay(pid, path)
        if ok is True:
            matched = None
            for e in kf:
                if e.get('match') and all(c.get(k) == v for k, v in e['match'].items()):
                    matched = e
            if matched:
                known_hit.append((matched, path))
            else:
                violations.append((r.name, path, out))
        else:
            non_repro.append((r.name, path, out))
    missing = []
    for oc in (required_outcomes or []):
        alts = oc if isinstance(oc, (tuple, list)) else (oc,)
        if not any(outcomes.get(a) for a in alts):
            missing.append(' or '.join(alts))
    for note in sorted(k for k in outcomes if 'not applicable' in k):
        print(f'NOTE: {note}: part of the harness could not be applied to this tree; the remaining cases decide')
    samples = []
    for r in results:
        for s in r.samples[:2]:
            samples.append({'case': r.name, **(s if isinstance(s, dict) else {'sample': s})})
    samples = samples[:12] or [{'case': r.name, 'detail': r.detail[:200]} for r in results[:3]]
    paths = int(stats.get('paths', 0))
    queries = int(stats.get('queries', 0))
    cov = {
        'functions_encoded': sources,
        'bounds': bounds,
        'stubs': stubs,
        'paths_feasible': paths,
        'paths_infeasible': int(stats.get('infeasible', 0)),
        'queries': {'total': queries, 'sat': int(stats.get('sat', 0)), 'unsat': int(stats.get('unsat', 0)),
                    'unknown': int(stats.get('unknown', 0))},
        'solver_s': round(stats.get('solver_s', 0.0), 2),
        'cases': [{'name': r.name, 'status': r.status, 'wall_s': r.wall,
                   'paths': (r.stats or {}).get('paths'), 'queries': (r.stats or {}).get('queries'),
                   'detail': r.detail[:300]} for r in results],
        'outcome_classes_reached': outcomes,
        'evaluations': max(queries, 1),
        'distinct_nontrivial': max(paths, 0),
        'rule': rule,
        'samples': samples,
        'states': max(paths, 1),
        'transitions': max(int(stats.get('steps', 0)), 1),
        'traces_validated_against_impl': validated,
        'explanation': explanation,
        'source_lines_covered': sum(len(r.lines or []) for r in results),
        'counterexamples_not_reproduced': [{'case': n, 'replay': p} for n, p, _ in non_repro],
    }
    if extra_cov:
        cov.update(extra_cov)
    ev = {'property_id': pid, 'tier': tier, 'seed': SEED, 'level': level, 'coverage': cov,
          'assumptions': assumptions, 'wall_s': round(time.time() - t0, 2), 'violations': len(violations)}
    evdir = os.environ.get('VERIF_EVIDENCE_DIR') or os.path.join(VERIF, 'evidence')
    os.makedirs(evdir, exist_ok=True)
    with open(os.path.join(evdir, f'{pid}.json'), 'w') as f:
        json.dump(ev, f, indent=1, default=str)
    for e, path in known_hit:
        print(f'KNOWN-FINDING: property={pid} {e.get("what", "")}')
    for name, path, out in violations:
        print(f'--- violation in case {name}\n{out.strip()[-1500:]}')
        print(f'VIOLATION property={pid} replay={path}')
    if violations:
        return EXIT_VIOLATION
    code = EXIT_OK
    for r in inconclusive:
        print(f'INCONCLUSIVE case={r.name}: {r.detail[:1200]}')
        code = EXIT_INCONCLUSIVE
    for name, path, out in non_repro:
        print(f'INCONCLUSIVE case={name}: solver counterexample did not reproduce on the real code ({path})\n{out[-800:]}')
        code = EXIT_INCONCLUSIVE
    for oc in missing:
        print(f'INCONCLUSIVE: outcome class {oc!r} never reached (vacuity guard)')
        code = EXIT_INCONCLUSIVE
    if code == EXIT_OK:
        print(f'OK property={pid} tier={tier} cases={len(results)} paths={paths} queries={queries} '
              f'solver_s={cov["solver_s"]} wall_s={ev["wall_s"]}')
    return code
