"""SYMEX: a forking symbolic interpreter for the Python subset used by bridge_env.

The statements that are executed are the repository's statements: every
function is fetched with inspect.getsource at run time, parsed with ast and
interpreted over a mix of concrete Python objects and symbolic values (z3 terms).
Path exploration is depth-first by re-execution with a recorded decision list.

Nothing in here knows a bridge rule; the only domain knowledge is the 52-card
universe used by the CardSet model of Set[Card].
"""
import ast
import builtins
import dataclasses
import enum
import hashlib
import functools
import inspect
import operator
import textwrap
import time
import types

import z3


# --------------------------------------------------------------------------
# symbolic values
# --------------------------------------------------------------------------
_CANON = z3.Int('__canonical_char__')
_DOMAIN_CACHE = {}


class Sym:
    pass


def _no_python_truth(s):
    # a symbolic scalar/collection must never be tested by Python's own `if`: the engine decides truth via
    # Engine.truth(); an accidental test in a model would silently pick one branch
    raise Unsupported(f'python truth value of symbolic {type(s).__name__} requested by the engine (model bug)')


class SInt(Sym):
    __bool__ = _no_python_truth

    def __init__(s, z):
        s.z = z

    def __repr__(s):
        return f'SInt({s.z})'


class SBool(Sym):
    __bool__ = _no_python_truth

    def __init__(s, z):
        s.z = z

    def __repr__(s):
        return f'SBool({s.z})'


class SEnum(Sym):
    __bool__ = _no_python_truth

    """member of Enum class cls identified by an integer code.

    For int-valued enums the code is the member's value; for other enums it is
    the 1-based position of the member.  code 0 encodes None when opt."""

    def __init__(s, cls, z, opt=False):
        s.cls, s.z, s.opt = cls, z, opt

    def __repr__(s):
        return f'SEnum({s.cls.__name__},{s.z})'


class SArr(Sym):
    __bool__ = _no_python_truth

    """fixed-length 1-d numeric vector (numpy model): list of z3 Int / python numbers"""

    def __init__(s, items):
        s.items = list(items)


class SList(Sym):
    __bool__ = _no_python_truth

    """list with symbolic length n and z3 Array contents; elements are codes of enum cls"""

    def __init__(s, cls, arr, n):
        s.cls, s.arr, s.n = cls, arr, n


class SLog(Sym):
    """append-only list with symbolic base length whose old elements are never read"""

    def __init__(s, base):
        s.base, s.app = base, []


class CardSet(Sym):
    __bool__ = _no_python_truth

    """Set[Card] over the 52-card universe: bits[i] for card index i = (suit-1)*13 + rank-2,
    plus a size term maintained by the model (never a popcount handed to the solver)."""
    _n = 0

    def __init__(s, bits, n=None):
        s.bits = list(bits)
        s.n = n

    def axioms(s):
        return z3.And(s.n >= 0, s.n <= 52, (s.n == 0) == z3.Not(z3.Or(s.bits)),
                      z3.Implies(s.n <= 1, z3.AtMost(*s.bits, 1)), z3.Implies(s.n >= 2, z3.AtLeast(*s.bits, 2)))

    def copy(s):
        return CardSet(list(s.bits), s.n)


class SObj(Sym):
    def __init__(s, cls, attrs=None):
        s.cls, s.attrs = cls, (attrs if attrs is not None else {})

    def __repr__(s):
        return f'SObj({s.cls.__name__})'


class SStr(Sym):
    """string of concrete length; chars are python ints (code points) or z3 Int terms"""

    def __init__(s, chars):
        s.chars = list(chars)

    def __repr__(s):
        return 'SStr(' + ''.join(chr(c) if isinstance(c, int) else '?' for c in s.chars) + ')'

    def __len__(s):
        return len(s.chars)

    def is_concrete(s):
        return all(isinstance(c, int) for c in s.chars)

    def concrete(s):
        return ''.join(chr(c) for c in s.chars)


class Opaque(Sym):
    """an uninterpreted token carrying a payload (e.g. json.dumps result)"""

    def __init__(s, kind, payload):
        s.kind, s.payload = kind, payload

    def __repr__(s):
        return f'Opaque({s.kind})'


class GuardedList(Sym):
    __bool__ = _no_python_truth

    """list whose elements are present under guards: [(z3 Bool or None, value)] (order preserved)"""

    def __init__(s, items):
        s.items = items


class SuperProxy:
    def __init__(s, cls, obj):
        s.cls, s.obj = cls, obj


class BoundSym:
    def __init__(s, fn, self_):
        s.fn, s.self = fn, self_


class ReturnEx(Exception):
    def __init__(s, v):
        s.v = v


class RaiseEx(Exception):
    """a Python exception raised by the interpreted program"""

    def __init__(s, exc):
        s.exc = exc


class BreakEx(Exception):
    pass


class ContinueEx(Exception):
    pass


class Unsupported(Exception):
    pass


class Infeasible(Exception):
    pass


class RestartAll(Exception):
    """exploration must start again (a merge attempt failed and was blacklisted)"""


class MergeFail(Exception):
    pass


class GuardDead(Exception):
    """code running under a merge guard found that the guard is false on this path"""


DEAD = object()


class UnwindingAssertion(Exception):
    """a loop wanted more iterations than its bound"""


def enum_code(m):
    if m is None:
        return 0
    if isinstance(m.value, int) and not isinstance(m.value, bool):
        return m.value
    return list(type(m)).index(m) + 1


def enum_by_code(cls, code):
    for m in cls:
        if enum_code(m) == code:
            return m
    raise KeyError(code)


def card_index_of(card):
    return (card.suit.value - 1) * 13 + card.rank - 2


def zint(v):
    if isinstance(v, SInt):
        return v.z
    if isinstance(v, SBool):
        return z3.If(v.z, 1, 0)
    if isinstance(v, z3.ExprRef):
        return v
    if isinstance(v, bool):
        return z3.IntVal(int(v))
    if isinstance(v, int):
        return z3.IntVal(v)
    if isinstance(v, float) and v == int(v):
        return z3.IntVal(int(v))
    try:
        import numpy as np
        if isinstance(v, (np.integer, np.floating)) and v == int(v):
            return z3.IntVal(int(v))
    except ImportError:
        pass
    raise Unsupported(f'zint {v!r}')


def zbool(v):
    if isinstance(v, SBool):
        return v.z
    if isinstance(v, bool):
        return z3.BoolVal(v)
    if isinstance(v, z3.ExprRef):
        return v
    if isinstance(v, SInt):
        return v.z != 0
    if isinstance(v, int):
        return z3.BoolVal(bool(v))
    raise Unsupported(f'zbool {v!r}')


def zenum(v):
    if isinstance(v, SEnum):
        return v.z
    if v is None:
        return z3.IntVal(0)
    if isinstance(v, enum.Enum):
        return z3.IntVal(enum_code(v))
    raise Unsupported(f'zenum {v!r}')


def is_sym(v, depth=3):
    if isinstance(v, Sym):
        return True
    if depth <= 0:
        return False
    if isinstance(v, (list, tuple, set, frozenset)):
        return any(is_sym(x, depth - 1) for x in v)
    if isinstance(v, dict):
        return any(is_sym(x, depth - 1) for x in v.values()) or any(isinstance(k, Sym) for k in v)
    return False


_src_cache = {}
SOURCES_USED = {}     # qualified name -> sha1 of source (for the evidence)


def func_ast(fn):
    fn = getattr(fn, '__func__', fn)
    if fn not in _src_cache:
        src = textwrap.dedent(inspect.getsource(fn))
        node = ast.parse(src).body[0]
        _src_cache[fn] = node
        SOURCES_USED[f'{fn.__module__}.{fn.__qualname__}'] = hashlib.sha1(src.encode()).hexdigest()[:12]
        ln0 = fn.__code__.co_firstlineno
        for n in ast.walk(node):
            if hasattr(n, 'lineno'):
                n._abs = (fn.__code__.co_filename, n.lineno + ln0 - 1)
    return _src_cache[fn]


MUTATORS = {'append', 'add', 'remove', 'pop', 'put', 'get', 'write', 'send', 'sendall', 'recv', 'set',
            'clear', 'wait', 'extend', 'insert', 'discard', 'update', 'close', 'start', 'join',
            'send_message', 'receive_message', 'record', 'play_card', 'take_bid', 'play_card_by_player',
            'send_message_to_queue', 'receive_message_from_queue'}


def _mergeable_block(stmts):
    """static test: block contains only assignments / nested ifs / pass and no calls to known mutators"""
    for s in stmts:
        if isinstance(s, (ast.Assign, ast.AugAssign, ast.AnnAssign, ast.Pass)):
            for n in ast.walk(s):
                if isinstance(n, ast.Call):
                    f = n.func
                    nm = f.attr if isinstance(f, ast.Attribute) else getattr(f, 'id', '')
                    if nm in MUTATORS:
                        return False
                if isinstance(n, (ast.ListComp, ast.SetComp, ast.DictComp, ast.GeneratorExp, ast.Lambda,
                                  ast.Yield, ast.Await, ast.NamedExpr)):
                    return False
        elif isinstance(s, ast.If):
            if not _mergeable_block(s.body) or not _mergeable_block(s.orelse):
                return False
        elif isinstance(s, ast.Expr) and _is_logger_call(s.value):
            continue
        elif isinstance(s, ast.Expr) and isinstance(s.value, ast.Call) and \
                isinstance(s.value.func, ast.Attribute) and s.value.func.attr in ('add', 'append', 'discard'):
            for a in s.value.args:
                for n in ast.walk(a):
                    if isinstance(n, ast.Call) and (n.func.attr if isinstance(n.func, ast.Attribute)
                                                    else getattr(n.func, 'id', '')) in MUTATORS:
                        return False
            continue
        else:
            return False
    return True


def _is_logger_call(e):
    return (isinstance(e, ast.Call) and isinstance(e.func, ast.Attribute)
            and isinstance(e.func.value, ast.Name) and e.func.value.id == 'logger')


# --------------------------------------------------------------------------
# engine
# --------------------------------------------------------------------------
class Engine:
    def __init__(self, repo_prefix='bridge_env', always_interpret=False, loop_bound=64,
                 max_paths=200000, merge=True):
        self.repo_prefix = repo_prefix
        self.always_interpret = always_interpret
        self.loop_bound = loop_bound
        self.max_paths = max_paths
        self.merge = merge
        self.stats = dict(paths=0, infeasible=0, queries=0, solver_s=0.0, sat=0, unsat=0, unknown=0,
                          steps=0, restarts=0)
        self.no_merge = set()
        self.stubs = {}          # python callable (by identity) -> replacement taking (engine, args, kwargs)
        self.attr_stubs = {}     # (type name, attr) -> callable(engine, obj) -> value
        self.skip_calls = set()  # names of functions to skip
        self.lines = set()       # (file, line) executed
        self.guards = []         # stack of z3 Bool guards (merge mode)
        self.fresh_n = 0
        self.solver = z3.Solver()
        self.pc = []
        self.timeout_ms = 120000
        self.unknowns = []
        self.implied = {}
        self.model = None
        self.lru = {}
        self.domains = {}
        self.summarize = set()   # pure repository functions explored once per call site and returned as one ite term
        self.in_summary = 0

    # ---- module-level mutable state of the repository (caches etc.) is reset at the start of every path
    def snapshot_modules(self):
        import sys as _sys
        import copy as _copy
        self._modstate = []
        for name, mod in list(_sys.modules.items()):
            if mod is None or not name.startswith(self.repo_prefix):
                continue
            for k, v in list(vars(mod).items()):
                if k.startswith('__'):
                    continue
                if type(v) in (dict, list, set):
                    try:
                        self._modstate.append((v, _copy.deepcopy(v)))
                    except Exception:
                        pass
                if isinstance(v, type) and getattr(v, '__module__', '') == name:
                    # class-level containers (shared by every instance) are global state as well
                    for ck, cv in list(vars(v).items()):
                        if not ck.startswith('__') and type(cv) in (dict, list, set):
                            try:
                                self._modstate.append((cv, _copy.deepcopy(cv)))
                            except Exception:
                                pass

    def reset_modules(self):
        import copy as _copy
        for live, saved in getattr(self, '_modstate', []):
            if isinstance(live, dict):
                live.clear()
                live.update(_copy.deepcopy(saved))
            elif isinstance(live, list):
                live[:] = _copy.deepcopy(saved)
            else:
                live.clear()
                live.update(saved)

    # ---- exploration by re-execution
    def explore(self, harness):
        """harness(engine) runs one path and returns a result; returns the list of results"""
        while True:
            try:
                return self._explore(harness)
            except RestartAll:
                self.stats['restarts'] += 1
                continue

    def _explore(self, harness):
        results = []
        stack = [[]]
        if not hasattr(self, '_modstate'):
            self.snapshot_modules()
        while stack:
            self.reset_modules()
            prefix = stack.pop()
            self.decisions = list(prefix)
            self.pos = 0
            self.pending = []
            self.solver = z3.Solver()
            self.solver.set('timeout', self.timeout_ms)
            self.pc = []
            self.guards = []
            self.fresh_n = 0
            self.implied = {}
            self.model = None
            self.lru = {}
            self.shared_arrays = {}
            try:
                r = harness(self)
                results.append(r)
                self.stats['paths'] += 1
            except Infeasible:
                self.stats['infeasible'] += 1
            for alt in self.pending:
                stack.append(alt)
            if self.stats['paths'] > self.max_paths:
                raise Unsupported('path budget exceeded')
        return results

    def shared(self, v):
        """A module- or class-level numpy vector read by interpreted code: ONE model array per real array and path, so
        that every reader (e.g. every instance initialised from a module-level template without copying it) shares it
        and writes through it are seen by all of them; the real array is never written."""
        try:
            import numpy as np
        except ImportError:
            return v
        if isinstance(v, np.ndarray) and v.ndim == 1 and v.dtype.kind in 'iufb':
            if not hasattr(self, 'shared_arrays'):
                self.shared_arrays = {}
            k = id(v)
            if k not in self.shared_arrays:
                self.shared_arrays[k] = (v, SArr([int(x) if float(x) == int(x) else float(x) for x in v.tolist()]))
            return self.shared_arrays[k][1]
        return v

    def fresh(self, prefix, sort='int'):
        self.fresh_n += 1
        nm = f'{prefix}!{self.fresh_n}'
        return z3.Int(nm) if sort == 'int' else z3.Bool(nm)

    def check(self, *extra):
        t = time.time()
        self.stats['queries'] += 1
        r = self.solver.check(*extra)
        self.stats['solver_s'] += time.time() - t
        self.stats[str(r)] = self.stats.get(str(r), 0) + 1
        if r == z3.unknown:
            self.unknowns.append(self.solver.reason_unknown())
            raise Unsupported('solver returned unknown: ' + self.solver.reason_unknown())
        return r

    def assume(self, z):
        self.solver.add(z)
        self.pc.append(z)
        if self.model is not None:
            try:
                if not z3.is_true(self.model.eval(z, model_completion=True)):
                    self.model = None
            except z3.Z3Exception:
                self.model = None

    def guard(self):
        if not self.guards:
            return None
        return z3.And(self.guards) if len(self.guards) > 1 else self.guards[0]

    def under_guard(self, g, thunk):
        """run thunk() with g pushed on the guard stack.  Inside, a fork answers True only if guard∧cond,
        so a False answer is 'cond is false OR the guard is false'; state updates are merged with ite(guard,..).
        An exception raised inside is genuine only if the guard holds: that is decided here (fork on the
        guard itself); otherwise the guarded code is not really executing and DEAD is returned."""
        self.guards.append(g)
        try:
            try:
                return thunk()
            finally:
                total = self.guard()
                self.guards.pop()
        except RaiseEx:
            if self.decide(total, raw=True):
                raise
            return DEAD
        except GuardDead:
            if self.guards:
                # the total guard is false; an enclosing guard may still hold
                if self.decide(self.guard(), raw=True):
                    return DEAD
                raise
            return DEAD

    def decide(self, z, raw=False):
        """fork on z (python bool or z3 Bool); under a merge guard g the fork is on g∧z.
        Two accelerations that do not change the explored tree: (1) conditions already known to be implied by the path
        condition (or their negations) are answered from a per-path cache - the path condition only grows, so an
        implication stays valid; (2) a model of the current path condition is kept, so that only the side the model does
        not witness needs a solver call."""
        if isinstance(z, bool):
            return z
        g = None if raw else self.guard()
        if g is not None:
            z = z3.And(g, z)
        z = z3.simplify(z)
        if z3.is_true(z):
            return True
        if z3.is_false(z):
            return False
        key = z.get_id()
        hit = self.implied.get(key)
        if hit is not None:
            # answered from the cache, but the decision is still recorded / consumed: z3.simplify orders arguments by AST
            # id, so WHICH calls hit the cache may differ between a run and its re-execution; the decision list must not
            if self.pos < len(self.decisions):
                d = self.decisions[self.pos]
                if d != hit[0]:
                    raise Unsupported('internal: recorded decision contradicts an implied condition (re-execution out of step)')
            else:
                self.decisions.append(hit[0])
            self.pos += 1
            return hit[0]
        if self.pos < len(self.decisions):
            d = self.decisions[self.pos]
            self.pos += 1
            self.assume(z if d else z3.Not(z))
            self._keep(z)
            self.implied[key] = (d, z)        # z kept alive: AST ids are reused after collection
            return d
        qe = self._domain_eval(z) if self.domains else None
        if qe is not None:
            # decided by enumerating the declared finite domain of the only variable involved (sound: the path condition
            # can only shrink that domain); recorded like any forced decision so that re-execution stays in step
            self.decisions.append(qe)
            self.pos += 1
            self.implied[key] = (qe, z)
            return qe
        witness = None
        if self.model is not None:
            try:
                mv = self.model.eval(z, model_completion=True)
                witness = True if z3.is_true(mv) else (False if z3.is_false(mv) else None)
            except z3.Z3Exception:
                witness = None
        if witness is True:
            can_t = True
            can_f = self.check(z3.Not(z)) == z3.sat
        elif witness is False:
            can_f = True
            can_t = self.check(z) == z3.sat
            if can_t:
                self._grab_model()
        else:
            can_t = self.check(z) == z3.sat
            if can_t:
                self._grab_model()
            can_f = self.check(z3.Not(z)) == z3.sat
            if can_f and not can_t:
                self._grab_model()
        if can_t and can_f:
            self.pending.append(self.decisions[:self.pos] + [False])
            self.decisions.append(True)
            self.pos += 1
            self.assume(z)
            self._keep(z)
            self.implied[key] = (True, z)
            return True
        if can_t:
            self.decisions.append(True)
            self.pos += 1
            self.assume(z)
            self.implied[key] = (True, z)
            return True
        if can_f:
            self.decisions.append(False)
            self.pos += 1
            self.assume(z3.Not(z))
            self.implied[key] = (False, z)
            return False
        raise Infeasible()

    def declare_domain(self, var, values):
        """var: z3 Int constant assumed (by the harness) to take one of `values`; lets conditions over that single
        variable be decided by enumeration instead of a solver call"""
        self.domains[var.get_id()] = (var, tuple(sorted(set(values))))

    def _domain_eval(self, z):
        seen = None
        stack = [z]
        n = 0
        while stack:
            t = stack.pop()
            n += 1
            if n > 400:
                return None
            if z3.is_const(t):
                if t.decl().kind() == z3.Z3_OP_UNINTERPRETED:
                    if seen is None:
                        seen = t
                    elif seen.get_id() != t.get_id():
                        return None
            else:
                stack.extend(t.children())
        if seen is None or seen.get_id() not in self.domains:
            return None
        var, values = self.domains[seen.get_id()]
        # the same test recurs on many characters: decide it once per (domain, shape)
        canon = z3.substitute(z, (var, _CANON))
        ck = (values, canon.get_id())
        if ck in _DOMAIN_CACHE:
            return _DOMAIN_CACHE[ck][0]
        res = self._domain_enum(z, var, values)
        _DOMAIN_CACHE[ck] = (res, canon)      # canon kept alive so that its id is not reused
        return res

    def _domain_enum(self, z, var, values):
        res = None
        for v in values:
            r = z3.simplify(z3.substitute(z, (var, z3.IntVal(v))))
            if z3.is_true(r):
                b = True
            elif z3.is_false(r):
                b = False
            else:
                return None
            if res is None:
                res = b
            elif res != b:
                return None
        return res

    def _grab_model(self):
        try:
            self.model = self.solver.model()
        except z3.Z3Exception:
            self.model = None

    def _keep(self, z):
        """the kept model stays usable only if it satisfies what was just assumed"""
        if self.model is not None:
            try:
                if not z3.is_true(self.model.eval(z, model_completion=True)):
                    self.model = None
            except z3.Z3Exception:
                self.model = None

    def truth(self, v):
        if isinstance(v, SBool):
            return self.decide(v.z)
        if isinstance(v, SInt):
            return self.decide(v.z != 0)
        if isinstance(v, SEnum):
            return self.decide(v.z != 0) if v.opt else True
        if isinstance(v, SStr):
            return len(v.chars) > 0
        if isinstance(v, CardSet):
            return self.decide(v.n != 0)
        if isinstance(v, SList):
            return self.decide(v.n != 0)
        if isinstance(v, GuardedList):
            if any(g is None for g, _ in v.items):
                return True
            return self.decide(z3.Or([g for g, _ in v.items])) if v.items else False
        if isinstance(v, (SObj, Opaque)):
            return True
        if isinstance(v, Sym):
            raise Unsupported(f'truth of {v}')
        return bool(v)

    def concretize_enum(self, v):
        if not isinstance(v, SEnum):
            return v
        if v.opt and self.decide(v.z == 0):
            return None
        for m in v.cls:
            if self.decide(v.z == enum_code(m)):
                return m
        if self.guards:
            raise GuardDead()
        raise Infeasible()

    def concretize_int(self, v, lo, hi):
        """fork over the values lo..hi of a symbolic int (small ranges only)"""
        if not isinstance(v, SInt):
            return v
        sv = z3.simplify(v.z)
        if z3.is_int_value(sv):
            return sv.as_long()
        for k in range(lo, hi + 1):
            if self.decide(v.z == k):
                return k
        if self.guards:
            raise GuardDead()
        raise Infeasible()

    # ---- merging of values
    def mergeable(self, a):
        return a is None or isinstance(a, (bool, int, SInt, SBool, SEnum, enum.Enum)) or _is_np_num(a)

    def ite(self, g, a, b):
        """value equal to a when g else b; raises MergeFail when shapes differ"""
        if a is b:
            return a
        if isinstance(a, (SBool, bool)) and isinstance(b, (SBool, bool)):
            if isinstance(a, bool) and isinstance(b, bool) and a == b:
                return a
            return SBool(z3.If(g, zbool(a), zbool(b)))
        if _is_intlike(a) and _is_intlike(b):
            if not isinstance(a, Sym) and not isinstance(b, Sym) and a == b:
                return a
            return SInt(z3.If(g, zint(a), zint(b)))
        if _is_enumlike(a) and _is_enumlike(b):
            ca = a.cls if isinstance(a, SEnum) else (type(a) if a is not None else None)
            cb = b.cls if isinstance(b, SEnum) else (type(b) if b is not None else None)
            cls = ca or cb
            if cls is None:
                return None
            if ca is not None and cb is not None and ca is not cb:
                raise MergeFail('enum classes differ')
            if not isinstance(a, Sym) and not isinstance(b, Sym) and a is b:
                return a
            opt = (a is None or b is None or getattr(a, 'opt', False) or getattr(b, 'opt', False))
            return SEnum(cls, z3.If(g, zenum(a), zenum(b)), opt=opt)
        if isinstance(a, (str, SStr)) and isinstance(b, (str, SStr)) and not isinstance(a, bytes):
            from . import sstr
            ca, cb = sstr.chars_of(a), sstr.chars_of(b)
            if len(ca) != len(cb):
                raise MergeFail('strings of different length')
            return sstr.mk([x if (isinstance(x, int) and isinstance(y, int) and x == y) else
                            z3.If(g, sstr.zc(x), sstr.zc(y)) for x, y in zip(ca, cb)])
        if isinstance(a, SArr) and isinstance(b, SArr) and len(a.items) == len(b.items):
            return SArr([z3.If(g, zint(x), zint(y)) for x, y in zip(a.items, b.items)])
        if isinstance(a, CardSet) and isinstance(b, CardSet):
            return CardSet([z3.If(g, x, y) for x, y in zip(a.bits, b.bits)], z3.If(g, a.n, b.n))
        if isinstance(a, tuple) and isinstance(b, tuple) and len(a) == len(b):
            return tuple(self.ite(g, x, y) for x, y in zip(a, b))
        raise MergeFail(f'cannot merge {type(a).__name__} with {type(b).__name__}')

    def guarded_new(self, old, new, have_old=True):
        g = self.guard()
        if g is None or not have_old:
            return new
        return self.ite(g, new, old)

    # ---- calls
    def call(self, fn, args, kwargs):
        self.stats['steps'] += 1
        if isinstance(fn, BoundSym):
            return self.call(fn.fn, [fn.self] + list(args), kwargs)
        if isinstance(fn, types.MethodType):
            if fn.__func__ in self.stubs or fn in self.stubs:
                return self.stubs.get(fn, self.stubs.get(fn.__func__))(self, [fn.__self__] + list(args), kwargs)
            return self.call(fn.__func__, [fn.__self__] + list(args), kwargs)
        try:
            stub = self.stubs.get(fn)
        except TypeError:
            stub = None
        if stub is not None:
            return stub(self, list(args), kwargs)
        if isinstance(fn, SymCallable):
            return fn(*args, **kwargs)
        if type(fn).__name__ == '_lru_cache_wrapper' and hasattr(fn, '__wrapped__') and \
                (any(is_sym(a) for a in list(args) + list(kwargs.values())) or self.always_interpret):
            # functools.lru_cache: a memo keyed by the arguments (solver-decided equality of keys); the memo lives for one path
            from . import builtins_model as bm
            memo = self.lru.setdefault(id(fn), [])
            key = tuple(args) + tuple(sorted(kwargs.items()))
            for k_old, r_old in memo:
                e = bm.values_equal(self, k_old, key) if len(k_old) == len(key) else False
                if e is True or (e is not False and self.decide(e)):
                    return r_old
            r = self.call(fn.__wrapped__, args, kwargs)
            memo.append((key, r))
            return r
        from . import builtins_model as bm
        r = bm.call_builtin(self, fn, args, kwargs)
        if r is not bm.NOT_HANDLED:
            return r
        anysym = any(is_sym(a) for a in list(args) + list(kwargs.values()))
        mod = getattr(fn, '__module__', '') or ''
        if isinstance(fn, types.FunctionType) and mod.startswith(self.repo_prefix) and (anysym or self.always_interpret):
            return self.call_function(fn, args, kwargs)
        if isinstance(fn, type) and issubclass(fn, enum.Enum):
            if anysym:
                return self.enum_from_value(fn, args[0])
            return self.native(fn, args, kwargs)
        if isinstance(fn, type) and mod.startswith(self.repo_prefix) and (anysym or self.always_interpret):
            return self.construct(fn, args, kwargs)
        if isinstance(fn, types.FunctionType) and fn.__name__ == '<lambda>' and mod.startswith(self.repo_prefix):
            return self.call_lambda(fn, args, kwargs)
        if anysym and isinstance(fn, types.BuiltinMethodType) and isinstance(getattr(fn, '__self__', None), list) \
                and fn.__name__ in ('append', 'insert', 'extend'):
            if self.guards:
                raise MergeFail('list mutation under guard')
            return fn(*args, **kwargs)          # a concrete list may hold symbolic elements
        if anysym and isinstance(fn, types.BuiltinMethodType) and isinstance(getattr(fn, '__self__', None), dict) \
                and fn.__name__ in ('setdefault', 'get', 'pop', 'update') and args and \
                (fn.__name__ == 'update' or not isinstance(args[0], Sym)):
            if self.guards and fn.__name__ != 'get':
                raise MergeFail('dict mutation under guard')
            return fn(*args, **kwargs)          # concrete key, symbolic value
        if anysym:
            if isinstance(fn, type) and issubclass(fn, BaseException):
                return fn('<symbolic message>')
            raise Unsupported(f'call {fn} with symbolic args')
        return self.native(fn, args, kwargs)

    def native(self, fn, args, kwargs):
        if isinstance(fn, SymCallable):
            # a model / closure of the interpreter: program exceptions arrive as RaiseEx; anything else is an error of the
            # model and must not be taken for an exception of the program
            return fn(*args, **kwargs)
        try:
            return fn(*args, **kwargs)
        except (ReturnEx, RaiseEx, BreakEx, ContinueEx, Unsupported, Infeasible, RestartAll, MergeFail,
                UnwindingAssertion):
            raise
        except Exception as e:     # a real exception of the real function
            raise RaiseEx(e)

    def enum_from_value(self, cls, v):
        vals = [m.value for m in cls]
        if not all(isinstance(x, int) for x in vals):
            if isinstance(v, SStr):
                from . import sstr
                for m in cls:
                    if self.decide(sstr.eq(v, str(m.value))):
                        return m
                raise RaiseEx(ValueError(f'not a valid {cls.__name__}'))
            raise Unsupported('Enum(value) for non-int enum')
        z = zint(v)
        ok = z3.Or([z == x for x in vals])
        if not self.decide(ok):
            raise RaiseEx(ValueError(f'{v} is not a valid {cls.__name__}'))
        return SEnum(cls, z)

    def construct(self, cls, args, kwargs):
        if issubclass(cls, tuple):            # NamedTuple containers: plain construction
            return cls(*args, **kwargs)
        if issubclass(cls, BaseException):
            return cls('<message>')
        obj = SObj(cls, {})
        if dataclasses.is_dataclass(cls):
            flds = dataclasses.fields(cls)
            names = [f.name for f in flds]
            for n, v in zip(names, args):
                obj.attrs[n] = v
            for k, v in kwargs.items():
                obj.attrs[k] = v
            for f in flds:
                if f.name not in obj.attrs:
                    if f.default is not dataclasses.MISSING:
                        obj.attrs[f.name] = f.default
                    elif f.default_factory is not dataclasses.MISSING:
                        obj.attrs[f.name] = f.default_factory()
                    else:
                        raise RaiseEx(TypeError('missing field ' + f.name))
            post = getattr(cls, '__post_init__', None)
            if post is not None:
                self.call_function(post, [obj], {})
            return obj
        init = None
        for c in cls.__mro__:
            if '__init__' in c.__dict__:
                init = c.__dict__['__init__']
                break
        if isinstance(init, types.FunctionType) and init.__module__.startswith(self.repo_prefix):
            self.call_function(init, [obj] + list(args), kwargs)
        elif init is not object.__init__:
            raise Unsupported(f'construct {cls}')
        return obj

    def call_function(self, fn, args, kwargs):
        fn = getattr(fn, '__func__', fn)
        stub = self.stubs.get(fn)
        if stub is not None:
            return stub(self, list(args), kwargs)
        if fn.__name__ in self.skip_calls:
            return None
        if fn in self.summarize and not self.in_summary and \
                any(is_sym(a) for a in list(args) + list(kwargs.values())):
            return self.call_summarized(fn, args, kwargs)
        node = func_ast(fn)
        sig = inspect.signature(fn)
        try:
            ba = sig.bind(*args, **kwargs)
            ba.apply_defaults()
        except TypeError as e:
            raise RaiseEx(TypeError(str(e)))
        locs = dict(ba.arguments)
        for name, p in sig.parameters.items():
            if p.kind is inspect.Parameter.VAR_KEYWORD:
                pass
        frame = Frame(self, fn, locs)
        if inspect.isgeneratorfunction(fn):
            return frame.run_generator(node)
        try:
            frame.exec_block(node.body)
        except ReturnEx as r:
            return r.v
        return None

    def call_summarized(self, fn, args, kwargs):
        """pure-call summary: every feasible path of fn on these arguments is explored here (nested depth-first
        search by re-execution; fn must not mutate anything) and the result is ONE value: an ite over the path
        conditions.  Raising paths become a fork of the caller on their (disjoined) conditions."""
        saved = (self.decisions, self.pos, self.pending, self.guards)
        base = len(self.pc)
        results = []
        stack = [[]]
        self.in_summary += 1
        self.guards = []
        try:
            while stack:
                prefix = stack.pop()
                self.decisions, self.pos, self.pending = list(prefix), 0, []
                self.solver.push()
                saved_implied, saved_model = dict(self.implied), self.model
                try:
                    try:
                        v, kind = self.call_function(fn, args, kwargs), 'ret'
                    except RaiseEx as e:
                        v, kind = e.exc, 'raise'
                    seg = self.pc[base:]
                    results.append((z3.And(seg) if seg else z3.BoolVal(True), kind, v))
                except Infeasible:
                    pass
                finally:
                    self.solver.pop()
                    del self.pc[base:]
                    self.implied, self.model = saved_implied, saved_model
                stack.extend(self.pending)
                if len(results) > 5000:
                    raise Unsupported('summary of ' + fn.__qualname__ + ' has too many paths')
        finally:
            self.in_summary -= 1
            self.decisions, self.pos, self.pending, self.guards = saved
        self.stats['summaries'] = self.stats.get('summaries', 0) + 1
        self.stats['summary_paths'] = self.stats.get('summary_paths', 0) + len(results)
        for cond, kind, v in results:
            if kind == 'raise' and self.decide(cond):
                raise RaiseEx(v)
        rets = [(c, v) for c, k, v in results if k == 'ret']
        if not rets:
            if self.guards:
                raise GuardDead()
            raise Infeasible()
        out = rets[-1][1]
        try:
            for c, v in reversed(rets[:-1]):
                out = self.ite(c, v, out)
        except MergeFail:
            raise Unsupported('summary of ' + fn.__qualname__ + ': results cannot be merged')
        return out

    def call_lambda(self, fn, args, kwargs):
        src = inspect.getsource(fn)
        raise Unsupported('repo lambda ' + src.strip()[:60])


class SymCallable:
    """a harness-provided callable that receives symbolic arguments as they are"""

    def __init__(self, f):
        self.f = f

    def __call__(self, *a, **k):
        return self.f(*a, **k)


def _is_np_num(a):
    try:
        import numpy as np
        return isinstance(a, (np.integer, np.floating))
    except ImportError:
        return False


def _is_intlike(a):
    return (isinstance(a, (int, SInt)) and not isinstance(a, bool)) or _is_np_num(a) or \
        (isinstance(a, float) and a == int(a))


def _is_enumlike(a):
    return a is None or isinstance(a, (SEnum, enum.Enum))


# --------------------------------------------------------------------------
# frames
# --------------------------------------------------------------------------
_NOFIRST = object()


def _walk_own(node):
    """walk a statement without entering nested function / class definitions and lambdas"""
    yield node
    for c in ast.iter_child_nodes(node):
        if isinstance(c, (ast.FunctionDef, ast.AsyncFunctionDef, ast.ClassDef, ast.Lambda)):
            continue
        yield from _walk_own(c)


def _bind(a, defaults, kw_defaults, args, kwargs, name):
    """Python's argument binding for an ast.arguments node"""
    pos = [x.arg for x in a.posonlyargs + a.args]
    locs = {}
    args = list(args)
    kwargs = dict(kwargs)
    if len(args) > len(pos) and a.vararg is None:
        raise RaiseEx(TypeError(f'{name}() takes {len(pos)} positional arguments but {len(args)} were given'))
    for n, v in zip(pos, args):
        locs[n] = v
    if a.vararg is not None:
        locs[a.vararg.arg] = tuple(args[len(pos):])
    dflt = dict(zip(pos[len(pos) - len(defaults):], defaults))
    posonly = {x.arg for x in a.posonlyargs}
    for n in pos[len(args):]:
        if n in kwargs and n not in posonly:
            locs[n] = kwargs.pop(n)
        elif n in dflt:
            locs[n] = dflt[n]
        else:
            raise RaiseEx(TypeError(f'{name}() missing required argument {n!r}'))
    for x, dnode, d in zip(a.kwonlyargs, a.kw_defaults, kw_defaults):
        if x.arg in kwargs:
            locs[x.arg] = kwargs.pop(x.arg)
        elif dnode is not None:
            locs[x.arg] = d
        else:
            raise RaiseEx(TypeError(f'{name}() missing keyword-only argument {x.arg!r}'))
    for n in list(kwargs):
        if n in locs and n not in (a.kwarg.arg if a.kwarg else ()):
            raise RaiseEx(TypeError(f'{name}() got multiple values for argument {n!r}'))
    if a.kwarg is not None:
        locs[a.kwarg.arg] = kwargs
    elif kwargs:
        raise RaiseEx(TypeError(f'{name}() got an unexpected keyword argument {next(iter(kwargs))!r}'))
    return locs


class Frame:
    def __init__(self, eng, fn, locs):
        self.eng, self.fn, self.locs = eng, fn, locs
        self.globs = fn.__globals__
        qn = fn.__qualname__.split('.')
        self.clsname = qn[-2] if len(qn) >= 2 and qn[-2] != '<locals>' else None
        self.closure = {}
        if fn.__closure__:
            for name, cell in zip(fn.__code__.co_freevars, fn.__closure__):
                try:
                    self.closure[name] = cell.cell_contents
                except ValueError:
                    pass
        self.gen_out = None
        self.parent = None          # enclosing frame of a nested function / lambda
        self.nonlocals = set()

    def mangle(self, attr):
        if attr.startswith('__') and not attr.endswith('__') and self.clsname:
            return '_' + self.clsname.lstrip('_') + attr
        return attr

    def run_generator(self, node):
        """generators are run eagerly: the list of yielded values (the generator must not depend on
        being suspended, which holds for the parsers in this repository)"""
        self.gen_out = []
        try:
            self.exec_block(node.body)
        except ReturnEx:
            pass
        return self.gen_out

    # ---- statements
    def exec_block(self, stmts):
        for s in stmts:
            self.exec(s)

    def exec(self, s):
        if hasattr(s, '_abs'):
            self.eng.lines.add(s._abs)
        m = getattr(self, 'st_' + type(s).__name__, None)
        if m is None:
            raise Unsupported(f'stmt {type(s).__name__} in {self.fn.__qualname__}')
        return m(s)

    def st_Expr(self, s):
        if _is_logger_call(s.value):
            return
        if isinstance(s.value, ast.Constant):
            return
        if isinstance(s.value, ast.Yield):
            self.gen_out.append(self.ev(s.value.value) if s.value.value else None)
            return
        if isinstance(s.value, ast.YieldFrom):
            for g, x in self.iterate(self.ev(s.value.value)):
                if g is not None:
                    raise Unsupported('yield from a guarded collection')
                self.gen_out.append(x)
            return
        self.ev(s.value)

    def st_Pass(self, s):
        pass

    def st_Import(self, s):
        import importlib
        for a in s.names:
            try:
                mod = importlib.import_module(a.name)
            except ImportError as e:
                raise RaiseEx(e)
            if a.asname:
                self.locs[a.asname] = mod
            else:
                self.locs[a.name.split('.')[0]] = importlib.import_module(a.name.split('.')[0])

    def st_ImportFrom(self, s):
        import importlib
        pkg = self.globs.get('__package__') or self.fn.__module__.rpartition('.')[0]
        try:
            mod = importlib.import_module('.' * s.level + (s.module or ''), pkg if s.level else None)
        except ImportError as e:
            raise RaiseEx(e)
        for a in s.names:
            if a.name == '*':
                raise Unsupported('import *')
            try:
                v = getattr(mod, a.name)
            except AttributeError:
                try:
                    v = importlib.import_module(mod.__name__ + '.' + a.name)
                except ImportError as e:
                    raise RaiseEx(e)
            self.locs[a.asname or a.name] = v

    def st_Return(self, s):
        raise ReturnEx(self.ev(s.value) if s.value else None)

    def st_Assert(self, s):
        if not self.eng.truth(self.ev(s.test)):
            raise RaiseEx(AssertionError())

    def st_Raise(self, s):
        if s.exc is None:
            raise RaiseEx(self.locs.get('__active_exc__') or RuntimeError('re-raise'))
        exc = self.ev(s.exc)
        if isinstance(exc, type):
            exc = exc()
        raise RaiseEx(exc)

    def st_If(self, s):
        cond = self.ev(s.test)
        if not isinstance(cond, Sym):
            if cond:
                self.exec_block(s.body)
            else:
                self.exec_block(s.orelse)
            return
        if self.eng.merge and id(s) not in self.eng.no_merge and _node_key(s) not in self.eng.no_merge \
                and isinstance(cond, (SBool, SInt)) and _mergeable_block(s.body) and _mergeable_block(s.orelse):
            z = zbool(cond)
            zs = z3.simplify(z)
            if not z3.is_true(zs) and not z3.is_false(zs):
                try:
                    self.eng.under_guard(z, lambda: self.exec_block(s.body))
                    self.eng.under_guard(z3.Not(z), lambda: self.exec_block(s.orelse))
                    return
                except MergeFail:
                    self.eng.no_merge.add(_node_key(s))
                    raise RestartAll()
        if self.eng.truth(cond):
            self.exec_block(s.body)
        else:
            self.exec_block(s.orelse)

    def st_Assign(self, s):
        v = self.ev(s.value)
        for t in s.targets:
            self.assign(t, v)

    def st_AnnAssign(self, s):
        if s.value is not None:
            self.assign(s.target, self.ev(s.value))

    def st_AugAssign(self, s):
        cur = self.ev(ast_load(s.target))
        self.assign(s.target, self.binop(s.op, cur, self.ev(s.value)))

    def st_Delete(self, s):
        raise Unsupported('del')

    def iterate(self, it):
        """yield (guard or None, element) pairs for a for-loop / comprehension"""
        if isinstance(it, CardSet):
            from . import cards
            for i, bit in enumerate(it.bits):
                b = z3.simplify(bit) if isinstance(bit, z3.ExprRef) else z3.BoolVal(bool(bit))
                if z3.is_false(b):
                    continue
                yield (None if z3.is_true(b) else b), cards.CARDS[i]
            return
        if isinstance(it, GuardedList):
            for g, x in it.items:
                yield g, x
            return
        if type(it).__name__ == 'SortedCards':
            from . import cards
            order = cards.sorted_order()
            for i in (reversed(order) if it.reverse else order):
                bit = it.cs.bits[i]
                b = z3.simplify(bit) if isinstance(bit, z3.ExprRef) else z3.BoolVal(bool(bit))
                if z3.is_false(b):
                    continue
                yield (None if z3.is_true(b) else b), cards.CARDS[i]
            return
        if isinstance(it, SStr):
            for c in it.chars:
                yield None, SStr([c])
            return
        if isinstance(it, SArr):
            for x in it.items:
                yield None, (x if isinstance(x, (int, float)) else SInt(x))
            return
        if isinstance(it, SLog):
            raise Unsupported('iteration over SLog')
        if isinstance(it, SList):
            raise Unsupported('iteration over symbolic-length list')
        if isinstance(it, Sym):
            raise Unsupported(f'for over {type(it).__name__}')
        for x in it:
            yield None, x

    def st_For(self, s):
        it = self.ev(s.iter)
        completed = True
        merge_ok = self.eng.merge and _node_key(s) not in self.eng.no_merge and _mergeable_block(s.body)
        for g, x in self.iterate(it):
            if g is not None:
                if merge_ok:
                    # element present under g: run the body under that guard (no fork)
                    self.assign_nomerge(s.target, x)
                    try:
                        self.eng.under_guard(g, lambda: self.exec_block(s.body))
                    except MergeFail:
                        self.eng.no_merge.add(_node_key(s))
                        raise RestartAll()
                    continue
                if not self.eng.decide(g):
                    continue
            self.assign(s.target, x)
            try:
                self.exec_block(s.body)
            except BreakEx:
                completed = False
                break
            except ContinueEx:
                continue
        if completed and s.orelse:
            self.exec_block(s.orelse)

    def st_While(self, s):
        n = 0
        bound = self.eng.loop_bound
        while self.eng.truth(self.ev(s.test)):
            n += 1
            if n > bound:
                raise UnwindingAssertion(f'while loop at {getattr(s, "_abs", "?")} exceeds {bound} iterations')
            try:
                self.exec_block(s.body)
            except BreakEx:
                break
            except ContinueEx:
                continue
        else:
            if s.orelse:
                self.exec_block(s.orelse)

    def st_Break(self, s):
        raise BreakEx()

    def st_Continue(self, s):
        raise ContinueEx()

    def st_Try(self, s):
        try:
            try:
                self.exec_block(s.body)
            except RaiseEx as e:
                for h in s.handlers:
                    if h.type is None:
                        match = True
                    else:
                        t = self.ev(h.type)
                        match = isinstance(e.exc, t)
                    if match:
                        if h.name:
                            self.locs[h.name] = e.exc
                        self.locs['__active_exc__'] = e.exc
                        self.exec_block(h.body)
                        break
                else:
                    raise
            else:
                self.exec_block(s.orelse)
        finally:
            # the finally clause of the interpreted program
            if s.finalbody:
                self.exec_block(s.finalbody)

    def st_With(self, s):
        self._with(s, 0)

    def _with(self, s, i):
        if i == len(s.items):
            self.exec_block(s.body)
            return
        item = s.items[i]
        cm = self.ev(item.context_expr)
        enter = self.getattr(cm, '__enter__')
        v = self.eng.call(enter, [], {})
        if item.optional_vars is not None:
            self.assign(item.optional_vars, v)
        try:
            self._with(s, i + 1)
        except RaiseEx as e:
            ex = self.getattr(cm, '__exit__')
            r = self.eng.call(ex, [type(e.exc), e.exc, None], {})
            if not (isinstance(r, Sym)) and r:
                return
            raise
        except (ReturnEx, BreakEx, ContinueEx):
            ex = self.getattr(cm, '__exit__')
            self.eng.call(ex, [None, None, None], {})
            raise
        else:
            ex = self.getattr(cm, '__exit__')
            self.eng.call(ex, [None, None, None], {})

    def st_FunctionDef(self, s):
        """a nested function: a closure over this frame (reads see the frame's current locals, `nonlocal` writes go to
        it); generators are run eagerly like repository generators"""
        if s.decorator_list:
            raise Unsupported('decorated nested def')
        self.assign(ast.Name(id=s.name, ctx=ast.Store()), self._closure(s.args, s.body, s.name, is_lambda=False))

    def _closure(self, argsnode, body, name, is_lambda):
        frame = self
        defaults = [self.ev(d) for d in argsnode.defaults]
        kw_defaults = [None if d is None else self.ev(d) for d in argsnode.kw_defaults]
        is_gen = (not is_lambda) and any(isinstance(n, (ast.Yield, ast.YieldFrom)) for st in body for n in _walk_own(st))

        def call(*a, **k):
            locs = _bind(argsnode, defaults, kw_defaults, a, k, name)
            sub = Frame(frame.eng, frame.fn, locs)
            sub.parent = frame
            if is_lambda:
                return sub.ev(body)
            if is_gen:
                sub.gen_out = []
                try:
                    sub.exec_block(body)
                except ReturnEx:
                    pass
                return sub.gen_out
            try:
                sub.exec_block(body)
            except ReturnEx as r:
                return r.v
            return None
        c = SymCallable(call)
        c.__name__ = name
        return c

    def st_Nonlocal(self, s):
        self.nonlocals.update(s.names)

    def st_Global(self, s):
        raise Unsupported('global statement')

    def _owner(self, name):
        """the enclosing frame that holds a nonlocal name"""
        f = self.parent
        while f is not None:
            if name in f.locs:
                return f
            f = f.parent
        raise RaiseEx(NameError(name))

    # ---- assignment
    def assign(self, t, v):
        eng = self.eng
        if isinstance(t, ast.Name):
            locs = self._owner(t.id).locs if t.id in self.nonlocals else self.locs
            if eng.guards:
                v = eng.guarded_new(locs.get(t.id), v, t.id in locs)
            locs[t.id] = v
        elif isinstance(t, (ast.Tuple, ast.List)):
            if isinstance(v, Sym) and not isinstance(v, SStr):
                raise Unsupported('unpack symbolic')
            vs = list(v) if not isinstance(v, SStr) else [SStr([c]) for c in v.chars]
            stars = [i for i, tt in enumerate(t.elts) if isinstance(tt, ast.Starred)]
            if len(stars) > 1:
                raise Unsupported('several starred targets')
            if stars:
                i = stars[0]
                after = len(t.elts) - i - 1
                if len(vs) < len(t.elts) - 1:
                    raise RaiseEx(ValueError('not enough values to unpack'))
                for tt, vv in zip(t.elts[:i], vs[:i]):
                    self.assign(tt, vv)
                self.assign(t.elts[i].value, vs[i:len(vs) - after])
                for tt, vv in zip(t.elts[i + 1:], vs[len(vs) - after:]):
                    self.assign(tt, vv)
                return
            if len(vs) != len(t.elts):
                raise RaiseEx(ValueError('unpack'))
            for tt, vv in zip(t.elts, vs):
                self.assign(tt, vv)
        elif isinstance(t, ast.Attribute):
            o = self.ev(t.value)
            a = self.mangle(t.attr)
            if isinstance(o, SObj):
                ca = inspect.getattr_static(o.cls, a, None)
                if isinstance(ca, property) and getattr(ca.fget, '__module__', '').startswith(eng.repo_prefix):
                    # a data descriptor of a repository class: assignment calls its setter
                    if ca.fset is None:
                        raise RaiseEx(AttributeError(f"property '{a}' has no setter"))
                    if eng.guards:
                        raise MergeFail('property setter under guard')
                    eng.call_function(ca.fset, [o, v], {})
                    return
                if eng.guards:
                    v = eng.guarded_new(o.attrs.get(a), v, a in o.attrs)
                o.attrs[a] = v
            elif isinstance(o, Sym):
                raise Unsupported(f'setattr on {type(o).__name__}')
            else:
                if eng.guards:
                    v = eng.guarded_new(getattr(o, a, None), v, hasattr(o, a))
                setattr(o, a, v)
        elif isinstance(t, ast.Subscript):
            o = self.ev(t.value)
            self.setitem(o, t.slice, v)
        else:
            raise Unsupported(f'assign target {type(t).__name__}')

    def setitem(self, o, sl, v):
        eng = self.eng
        g = eng.guard()
        if isinstance(o, SArr):
            n = len(o.items)
            if isinstance(sl, ast.Slice):
                lo = self.ev(sl.lower) if sl.lower else 0
                hi = self.ev(sl.upper) if sl.upper else n
                if sl.step is not None:
                    raise Unsupported('slice step')
                zl, zh = zint(lo), zint(hi)
                zl = z3.If(zl < 0, z3.If(zl + n < 0, 0, zl + n), zl)
                zh = z3.If(zh < 0, z3.If(zh + n < 0, 0, zh + n), zh)
                zv = zint(v)
                cond = lambda i: z3.And(zl <= i, i < zh) if g is None else z3.And(g, zl <= i, i < zh)
                o.items = [z3.simplify(z3.If(cond(i), zv, zint(x))) for i, x in enumerate(o.items)]
            else:
                k = self.ev(sl)
                if isinstance(k, list):            # numpy fancy index with a list of indices
                    for kk in k:
                        self._sarr_set(o, kk, v, g)
                    return
                if isinstance(k, GuardedList):
                    for gg, kk in k.items:
                        g2 = gg if g is None else (g if gg is None else z3.And(g, gg))
                        self._sarr_set(o, kk, v, g2)
                    return
                self._sarr_set(o, k, v, g)
            return
        k = self.ev(sl)
        if isinstance(o, dict):
            if isinstance(k, SEnum) and k.opt:
                # an Optional[Enum] key: None is decided first (usually excluded by the path), so that the member case can
                # be written as one ite per slot instead of a fork per member
                k = None if eng.decide(k.z == 0) else SEnum(k.cls, k.z, opt=False)
            if isinstance(k, SEnum):
                keys = [m for m in k.cls if m in o]
                if keys and len(keys) == len(list(k.cls)) and not k.opt:
                    try:
                        new = {}
                        for m in keys:
                            c = (k.z == enum_code(m)) if g is None else z3.And(g, k.z == enum_code(m))
                            new[m] = eng.ite(c, v, o[m])
                        o.update(new)
                        return
                    except MergeFail:
                        pass
                k = eng.concretize_enum(k)
            elif isinstance(k, SStr):
                if k.is_concrete():
                    k = k.concrete()
            elif isinstance(k, Sym) and not isinstance(k, SInt):
                raise Unsupported('dict key symbolic')
            if _symkey(k) or any(_symkey(kk) for kk in o):
                if g is not None:
                    raise MergeFail('symbolic dict key under guard')
                hit = self._dict_find(o, k)
                o[hit if hit is not None else k] = v
                return
            if g is not None:
                v = eng.guarded_new(o.get(k), v, k in o)
            o[k] = v
            return
        if isinstance(o, list):
            if isinstance(k, SInt):
                n = len(o)
                if not eng.decide(z3.And(k.z >= -n, k.z < n)):
                    raise RaiseEx(IndexError('list assignment index out of range'))
                for i in range(n):
                    c = z3.Or(k.z == i, k.z == i - n)
                    if g is not None:
                        c = z3.And(g, c)
                    o[i] = eng.ite(c, v, o[i])
                return
            if g is not None:
                v = eng.guarded_new(o[k], v)
            try:
                o[k] = v
            except IndexError as e:
                raise RaiseEx(e)
            return
        if isinstance(o, SObj) and hasattr(o.cls, '__setitem__'):
            return eng.call_function(o.cls.__setitem__, [o, k, v], {})
        raise Unsupported(f'setitem on {type(o).__name__}')

    def _sarr_set(self, o, k, v, g):
        n = len(o.items)
        if isinstance(k, (int,)) and not isinstance(k, bool):
            if not -n <= k < n:
                raise RaiseEx(IndexError('index out of bounds'))
            o.items[k] = zint(v) if g is None else z3.If(g, zint(v), zint(o.items[k]))
            return
        zk, zv = zint(k), zint(v)
        if not self.eng.decide(z3.And(zk >= -n, zk < n)):
            raise RaiseEx(IndexError('index out of bounds'))
        cond = lambda i: z3.Or(zk == i, zk == i - n) if g is None else z3.And(g, z3.Or(zk == i, zk == i - n))
        o.items = [z3.If(cond(i), zv, zint(x)) for i, x in enumerate(o.items)]

    # ---- expressions
    def ev(self, e):
        m = getattr(self, 'ex_' + type(e).__name__, None)
        if m is None:
            raise Unsupported(f'expr {type(e).__name__} in {self.fn.__qualname__}')
        return m(e)

    def ex_Constant(self, e):
        return e.value

    def ex_Name(self, e):
        if e.id in self.locs:
            return self.locs[e.id]
        f = self.parent
        while f is not None:
            if e.id in f.locs:
                return f.locs[e.id]
            f = f.parent
        if e.id in self.closure:
            return self.closure[e.id]
        if e.id in self.globs:
            return self.eng.shared(self.globs[e.id])
        try:
            return getattr(builtins, e.id)
        except AttributeError:
            raise RaiseEx(NameError(e.id))

    def ex_Tuple(self, e):
        r = self._elts(e.elts)
        if isinstance(r, _StarOnly):
            return r.v
        return tuple(r)

    def ex_List(self, e):
        r = self._elts(e.elts)
        if isinstance(r, _StarOnly):
            return r.v            # [*s] is list(s): the symbolic collection itself stands for the list
        return list(r)

    def ex_Set(self, e):
        vals = self._elts(e.elts)
        if any(isinstance(v, Sym) for v in vals):
            return SymSetLiteral(vals)
        return set(vals)

    def _elts(self, elts):
        out = []
        for x in elts:
            if isinstance(x, ast.Starred):
                v = self.ev(x.value)
                if isinstance(v, Sym) and not isinstance(v, SStr):
                    if len(elts) == 1:
                        return _StarOnly(v)
                    raise Unsupported('star-unpacking of a symbolic collection next to other elements')
                out.extend(list(v))
            else:
                out.append(self.ev(x))
        return out

    def ex_Dict(self, e):
        d = {}
        for k, v in zip(e.keys, e.values):
            if k is None:
                m = self.ev(v)
                if isinstance(m, Sym) or not isinstance(m, dict):
                    raise Unsupported('dict literal ** of ' + type(m).__name__)
                d.update(m)
                continue
            kk = self.ev(k)
            if isinstance(kk, SEnum):
                kk = self.eng.concretize_enum(kk)
            elif isinstance(kk, SStr):
                if not kk.is_concrete():
                    raise Unsupported('dict literal symbolic str key')
                kk = kk.concrete()
            d[kk] = self.ev(v)
        return d

    def ex_JoinedStr(self, e):
        from . import sstr
        parts = []
        for v in e.values:
            if isinstance(v, ast.Constant):
                parts.append(v.value)
            else:
                if v.format_spec is not None:
                    val = self.ev(v.value)
                    spec = self.ev(v.format_spec)
                    if isinstance(val, Sym):
                        raise Unsupported('format spec on symbolic')
                    parts.append(format(val, spec))
                    continue
                val = self.ev(v.value)
                if v.conversion == ord('r'):
                    if isinstance(val, Sym):
                        val = sstr.concat(self.eng, ["'", self.to_str(val), "'"]) if isinstance(val, SStr) \
                            else '<repr>'
                    else:
                        val = repr(val)
                    parts.append(val)
                else:
                    parts.append(self.to_str(val))
        return sstr.concat(self.eng, parts)

    def to_str(self, val):
        from . import builtins_model as bm
        return bm.model_str(self.eng, val)

    def ex_Attribute(self, e):
        o = self.ev(e.value)
        a = self.mangle(e.attr)
        return self.getattr(o, a)

    def getattr(self, o, a):
        eng = self.eng
        st = eng.attr_stubs.get((type(o).__name__ if not isinstance(o, SObj) else o.cls.__name__, a))
        if st is not None:
            return st(eng, o)
        if isinstance(o, SEnum):
            if a == 'value':
                if all(isinstance(m.value, int) for m in o.cls):
                    return SInt(o.z)
                return eng.concretize_enum(o).value
            if a == 'name':
                return eng.concretize_enum(o).name
            ca = inspect.getattr_static(o.cls, a)
            if isinstance(ca, property):
                return eng.call_function(ca.fget, [o], {})
            if isinstance(ca, types.FunctionType):
                return BoundSym(ca, o)
            if isinstance(ca, classmethod):
                return BoundSym(ca.__func__, o.cls)
            if isinstance(ca, staticmethod):
                return ca.__func__
            raise Unsupported(f'SEnum attr {a}')
        if isinstance(o, SObj):
            if a in o.attrs:
                return o.attrs[a]
            if a == '__class__':
                return o.cls
            try:
                ca = inspect.getattr_static(o.cls, a)
            except AttributeError:
                if getattr(o.cls, '_verif_stub_', False):
                    # a stand-in for a library object (file, socket, ...): a missing member is a gap of the stub, not
                    # an AttributeError of the program
                    raise Unsupported(f'{o.cls.__name__} stub has no member {a!r}')
                raise RaiseEx(AttributeError(f'{o.cls.__name__} object has no attribute {a}'))
            if isinstance(ca, property):
                return eng.call_function(ca.fget, [o], {})
            if isinstance(ca, functools.cached_property):
                # non-data descriptor: computed on the first read and kept in the instance dictionary
                v = eng.call_function(ca.func, [o], {})
                if eng.guards:
                    raise MergeFail('cached_property under guard')
                o.attrs[a] = v
                return v
            if isinstance(ca, types.FunctionType):
                return BoundSym(ca, o)
            if isinstance(ca, staticmethod):
                return ca.__func__
            if isinstance(ca, classmethod):
                return BoundSym(ca.__func__, o.cls)
            return ca
        if isinstance(o, SuperProxy):
            target = o.obj.cls if isinstance(o.obj, SObj) else (o.obj if isinstance(o.obj, type) else type(o.obj))
            mro = target.__mro__
            nxt = mro[mro.index(o.cls) + 1:]
            for c in nxt:
                if a in c.__dict__:
                    ca = c.__dict__[a]
                    if isinstance(ca, staticmethod):
                        return ca.__func__
                    if isinstance(ca, classmethod):
                        return BoundSym(ca.__func__, target)
                    if isinstance(ca, property):
                        return eng.call_function(ca.fget, [o.obj], {})
                    return BoundSym(ca, o.obj)
            raise Unsupported('super attr ' + a)
        if isinstance(o, Sym):
            from . import builtins_model as bm
            return bm.sym_method(self, o, a)
        if isinstance(o, enum.Enum) and eng.always_interpret and a not in ('value', 'name'):
            ca = inspect.getattr_static(type(o), a, None)
            if isinstance(ca, property) and ca.fget.__module__.startswith(eng.repo_prefix):
                return eng.call_function(ca.fget, [o], {})
        if isinstance(o, (list, dict, set, str)) and eng.guards and a in MUTATORS:
            raise MergeFail('mutator under guard')
        if isinstance(o, (str, bytes, list, dict, tuple)):
            from . import builtins_model as bm
            r = bm.concrete_method(self, o, a)
            if r is not bm.NOT_HANDLED:
                return r
        try:
            return getattr(o, a)
        except AttributeError as ex:
            raise RaiseEx(ex)

    def ex_Subscript(self, e):
        o = self.ev(e.value)
        if isinstance(e.slice, ast.Slice):
            lo = self.ev(e.slice.lower) if e.slice.lower else None
            hi = self.ev(e.slice.upper) if e.slice.upper else None
            st = self.ev(e.slice.step) if e.slice.step else None
            return self.getslice(o, lo, hi, st)
        k = self.ev(e.slice)
        return self.getitem(o, k)

    def getslice(self, o, lo, hi, st):
        if isinstance(o, SStr):
            if any(isinstance(x, Sym) for x in (lo, hi, st)):
                raise Unsupported('symbolic slice bounds on SStr')
            return SStr(o.chars[slice(lo, hi, st)])
        if isinstance(o, SList) and st is None and hi is None and isinstance(lo, int) and lo < 0:
            # the last k elements of a list of symbolic length: fork on how many there are (at most k)
            k = -lo
            for j in range(k, -1, -1):
                if j == 0 or self.eng.decide(o.n >= j):
                    return [SEnum(o.cls, z3.Select(o.arr, o.n - j + i)) for i in range(j)]
        if isinstance(o, SArr) and not any(isinstance(x, Sym) for x in (lo, hi, st)):
            return SArr(o.items[slice(lo, hi, st)])
        if isinstance(o, Sym) or any(isinstance(x, Sym) for x in (lo, hi, st)):
            if isinstance(o, (list, tuple, str)) and all(x is None or isinstance(x, (int, SInt)) for x in (lo, hi, st)):
                n = len(o)
                lo2 = self.eng.concretize_int(lo, -n - 1, n + 1) if lo is not None else None
                hi2 = self.eng.concretize_int(hi, -n - 1, n + 1) if hi is not None else None
                return o[slice(lo2, hi2, st)]
            raise Unsupported('slice read on symbolic')
        return o[slice(lo, hi, st)]

    def getitem(self, o, k):
        eng = self.eng
        if isinstance(o, SArr):
            n = len(o.items)
            if isinstance(k, int):
                if not -n <= k < n:
                    raise RaiseEx(IndexError('index out of bounds'))
                x = o.items[k]
                return x if isinstance(x, (int, float)) else SInt(x)
            zk = zint(k)
            if not eng.decide(z3.And(zk >= -n, zk < n)):
                raise RaiseEx(IndexError('index out of bounds'))
            r = zint(o.items[-1])
            for i in range(n - 2, -1, -1):
                r = z3.If(z3.Or(zk == i, zk == i - n), zint(o.items[i]), r)
            return SInt(r)
        if isinstance(o, SList):
            zk = zint(k)
            if not eng.decide(z3.And(zk >= -o.n, zk < o.n)):
                raise RaiseEx(IndexError('list index out of range'))
            idx = z3.If(zk < 0, o.n + zk, zk)
            return SEnum(o.cls, z3.Select(o.arr, idx))
        if isinstance(o, SStr):
            if isinstance(k, int):
                try:
                    return SStr([o.chars[k]])
                except IndexError as ex:
                    raise RaiseEx(ex)
            if isinstance(k, SInt):
                n = len(o.chars)
                if n == 0 or not eng.decide(z3.And(k.z >= -n, k.z < n)):
                    raise RaiseEx(IndexError('string index out of range'))
                from . import sstr as _ss
                ch = _ss.zc(o.chars[n - 1])
                for i in range(n - 2, -1, -1):
                    ch = z3.If(z3.Or(k.z == i, k.z == i - n), _ss.zc(o.chars[i]), ch)
                return SStr([z3.simplify(ch)])
            raise Unsupported('symbolic index into SStr')
        if isinstance(o, dict):
            if isinstance(k, SEnum):
                keys = [m for m in k.cls if m in o]
                if keys and len(keys) == len(list(k.cls)):
                    if k.opt and eng.decide(k.z == 0):
                        raise RaiseEx(KeyError(None))
                    if all(isinstance(o[m], CardSet) for m in keys):
                        return AltObj([(k.z == enum_code(m), o[m]) for m in keys])
                    try:
                        r = o[keys[-1]]
                        for m in reversed(keys[:-1]):
                            r = eng.ite(k.z == enum_code(m), o[m], r)
                        return r
                    except MergeFail:
                        pass
                k = eng.concretize_enum(k)
            elif isinstance(k, SStr):
                if k.is_concrete():
                    k = k.concrete()
            elif isinstance(k, Sym) and not isinstance(k, SInt):
                raise Unsupported(f'dict key {type(k).__name__}')
            if _symkey(k) or any(_symkey(kk) for kk in o):
                hit = self._dict_find(o, k)
                if hit is None:
                    raise RaiseEx(KeyError('<symbolic key>'))
                return o[hit]
            try:
                return o[k]
            except KeyError as ex:
                raise RaiseEx(ex)
        if isinstance(o, SObj):
            gi = None
            for c in o.cls.__mro__:
                if '__getitem__' in c.__dict__:
                    gi = c.__dict__['__getitem__']
                    break
            if gi is None:
                raise Unsupported('getitem on ' + o.cls.__name__)
            return eng.call_function(gi, [o, k], {})
        if isinstance(o, type) and issubclass(o, enum.Enum):
            # Enum['NAME']
            if isinstance(k, SStr):
                if k.is_concrete():
                    k = k.concrete()
                else:
                    from . import sstr
                    eqs = [(m, sstr.eq(k, m.name)) for m in o]
                    eqs = [(m, e) for m, e in eqs if e is not False]
                    if any(e is True for _, e in eqs):
                        return [m for m, e in eqs if e is True][0]
                    if not eqs or not eng.decide(z3.Or([e for _, e in eqs])):
                        raise RaiseEx(KeyError('<symbolic name>'))
                    # one symbolic member instead of a fork per name (names are distinct, so at most one test holds)
                    code = z3.IntVal(enum_code(eqs[-1][0]))
                    for m, e in reversed(eqs[:-1]):
                        code = z3.If(e, enum_code(m), code)
                    return SEnum(o, code)
            try:
                return o[k]
            except KeyError as ex:
                raise RaiseEx(ex)
        if isinstance(o, (list, tuple, str)) and isinstance(k, SInt):
            n = len(o)
            if not eng.decide(z3.And(k.z >= -n, k.z < n)):
                raise RaiseEx(IndexError('index out of range'))
            if n == 0:
                raise Infeasible()
            try:
                r = o[n - 1]
                for i in range(n - 2, -1, -1):
                    r = eng.ite(z3.Or(k.z == i, k.z == i - n), o[i], r)
                return r
            except MergeFail:
                kk = eng.concretize_int(k, -n, n - 1)
                return o[kk]
        if isinstance(o, Sym) or isinstance(k, Sym):
            raise Unsupported(f'subscript {type(o).__name__}[{type(k).__name__}]')
        try:
            return o[k]
        except (KeyError, IndexError, TypeError) as ex:
            raise RaiseEx(ex)

    def _dict_find(self, o, k):
        """association-list lookup for keys that contain symbolic members (tuples of symbolic scalars)"""
        from . import builtins_model as bm
        for kk in list(o):
            r = bm.values_equal(self.eng, kk, k)
            if r is True or (r is not False and self.eng.decide(r)):
                return kk
        return None

    def ex_UnaryOp(self, e):
        v = self.ev(e.operand)
        if isinstance(e.op, ast.Not):
            if isinstance(v, SBool):
                return SBool(z3.Not(v.z))
            if isinstance(v, SInt):
                return SBool(v.z == 0)
            return not self.eng.truth(v)
        if isinstance(e.op, ast.USub):
            return SInt(-v.z) if isinstance(v, SInt) else -v
        if isinstance(e.op, ast.UAdd):
            return v
        if isinstance(e.op, ast.Invert):
            if isinstance(v, SInt):
                return SInt(-v.z - 1)
            if not isinstance(v, Sym):
                try:
                    return ~v
                except Exception as ex:
                    raise RaiseEx(ex)
        raise Unsupported('unary')

    def ex_BoolOp(self, e):
        """short-circuit semantics; symbolic bool operands are combined, later operands being evaluated
        under the guard that makes them reachable"""
        is_and = isinstance(e.op, ast.And)
        key = _node_key(e)
        if key in self.eng.no_merge or not self.eng.merge:
            # Python's own evaluation, deciding every symbolic operand (fork)
            v = is_and
            for x in e.values:
                v = self.ev(x)
                t = self.eng.truth(v) if isinstance(v, Sym) else bool(v)
                if t != is_and:
                    return v
            return v
        try:
            return self._boolop(e.values, 0, [], is_and)
        except MergeFail:
            self.eng.no_merge.add(key)
            raise RestartAll()

    def _boolop(self, values, i, acc, is_and):
        if i == len(values):
            if not acc:
                return is_and
            return SBool(z3.And(acc) if is_and else z3.Or(acc))
        last = i == len(values) - 1
        v = self.ev(values[i])
        if isinstance(v, (SBool, SInt)):
            z = zbool(v)
            acc = acc + [z]
            if last:
                return self._boolop(values, i + 1, acc, is_and)
            r = self.eng.under_guard(z if is_and else z3.Not(z), lambda: self._boolop(values, i + 1, acc, is_and))
            if r is DEAD:      # the rest is unreachable: z is false (and) / true (or)
                return SBool(z3.And(acc) if is_and else z3.Or(acc))
            return r
        t = self.eng.truth(v) if isinstance(v, Sym) else bool(v)
        if is_and and not t:
            if not acc:
                return v
            if isinstance(v, bool):
                return SBool(z3.BoolVal(False))
            raise MergeFail('and: non-bool falsy operand after symbolic conditions')
        if not is_and and t:
            if not acc:
                return v
            if isinstance(v, bool):
                return SBool(z3.BoolVal(True))
            raise MergeFail('or: non-bool truthy operand after symbolic conditions')
        if last:
            if not acc:
                return v
            if not isinstance(v, bool):
                raise MergeFail('bool-op: non-bool last operand after symbolic conditions')
        return self._boolop(values, i + 1, acc, is_and)

    def _boolop_mixed(self, acc, v, is_and):
        raise Unsupported('bool-op mixing symbolic conditions with non-bool value')

    def as_bool(self, v):
        return zbool(v)

    def ex_IfExp(self, e):
        c = self.ev(e.test)
        if not isinstance(c, Sym):
            return self.ev(e.body) if c else self.ev(e.orelse)
        key = _node_key(e)
        if self.eng.merge and isinstance(c, (SBool, SInt)) and key not in self.eng.no_merge \
                and not _has_call_to_mutator(e.body) and not _has_call_to_mutator(e.orelse):
            z = zbool(c)
            zs = z3.simplify(z)
            if z3.is_true(zs):
                return self.ev(e.body)
            if z3.is_false(zs):
                return self.ev(e.orelse)
            try:
                a = self.eng.under_guard(z, lambda: self.ev(e.body))
                b = self.eng.under_guard(z3.Not(z), lambda: self.ev(e.orelse))
                if a is DEAD:
                    return b if b is not DEAD else None
                if b is DEAD:
                    return a
                if a is not b and (isinstance(a, (CardSet, SArr, SLog, SList)) or isinstance(b, (CardSet, SArr, SLog, SList))):
                    # two distinct mutable objects: a merged copy would lose the aliasing (`h = own if c else dummy;
                    # h.remove(x)` must change own or dummy): decide the condition instead
                    raise MergeFail('conditional expression selecting between mutable objects')
                return self.eng.ite(z, a, b)
            except MergeFail:
                self.eng.no_merge.add(key)
                raise RestartAll()
        return self.ev(e.body) if self.eng.truth(c) else self.ev(e.orelse)

    def ex_Compare(self, e):
        left = self.ev(e.left)
        res = []
        for op, r in zip(e.ops, e.comparators):
            right = self.ev(r)
            res.append(self.cmp(op, left, right))
            left = right
        if len(res) == 1 and isinstance(res[0], SArr):
            return res[0]
        if all(not isinstance(x, Sym) for x in res):
            return all(res)
        return SBool(z3.And([zbool(x) for x in res]))

    def cmp(self, op, a, b):
        from . import builtins_model as bm
        return bm.compare(self, op, a, b)

    def ex_BinOp(self, e):
        return self.binop(e.op, self.ev(e.left), self.ev(e.right))

    def binop(self, op, a, b):
        from . import builtins_model as bm
        return bm.binop(self, op, a, b)

    def ex_Call(self, e):
        if _is_logger_call(e):
            return None
        if isinstance(e.func, ast.Name) and e.func.id == 'super' and not e.args:
            cls = self.globs[self.clsname]
            selfobj = self.locs.get('self', self.locs.get('cls'))
            return SuperProxy(cls, selfobj)
        fn = self.ev(e.func)
        args = []
        for a in e.args:
            if isinstance(a, ast.Starred):
                args.extend(list(self.ev(a.value)))
            else:
                args.append(self.ev(a))
        kwargs = {}
        for k in e.keywords:
            if k.arg is None:
                kwargs.update(self.ev(k.value))
            else:
                kwargs[k.arg] = self.ev(k.value)
        return self.eng.call(fn, args, kwargs)

    def ex_Lambda(self, e):
        return self._closure(e.args, e.body, '<lambda>', is_lambda=True)

    def ex_NamedExpr(self, e):
        v = self.ev(e.value)
        self.assign(e.target, v)
        return v

    # comprehensions
    def _comp(self, gens, idx, emit, first=_NOFIRST):
        """`first`: the already evaluated iterable of the first generator (its expression is evaluated exactly once,
        it may have side effects, e.g. a call of a generator method)"""
        if idx == len(gens):
            emit()
            return
        g = gens[idx]
        it = first if idx == 0 and first is not _NOFIRST else self.ev(g.iter)
        for guard, x in self.iterate(it):
            def element(x=x):
                self.assign_nomerge(g.target, x)
                conds = []
                for c in g.ifs:
                    cv = self.ev(c)
                    if isinstance(cv, (SBool, SInt)):
                        conds.append(zbool(cv))
                    elif not self.eng.truth(cv):
                        return
                if conds:
                    self.eng.under_guard(z3.And(conds) if len(conds) > 1 else conds[0],
                                         lambda: self._comp(gens, idx + 1, emit))
                else:
                    self._comp(gens, idx + 1, emit)
            if guard is not None:
                self.eng.under_guard(guard, element)
            else:
                element()

    def assign_nomerge(self, t, v):
        saved = self.eng.guards
        self.eng.guards = []
        try:
            self.assign(t, v)
        finally:
            self.eng.guards = saved

    def _collect(self, e_elt, gens, first=_NOFIRST):
        out = []
        eng = self.eng
        base = len(eng.guards)

        def emit():
            gs = eng.guards[base:]
            g = None if not gs else (z3.And(gs) if len(gs) > 1 else gs[0])
            out.append((g, self.ev(e_elt)))
        self._comp(gens, 0, emit, first)
        return out

    def ex_ListComp(self, e):
        first_it = self.ev(e.generators[0].iter)
        if (isinstance(first_it, (CardSet, GuardedList)) or type(first_it).__name__ == 'SortedCards') \
                and len(e.generators) == 1:
            out = self._collect(e.elt, e.generators, first_it)
            if any(g is not None for g, _ in out):
                return GuardedList(out)
            return [v for _, v in out]
        key = _node_key(e)
        if self.eng.merge and key not in self.eng.no_merge and not isinstance(first_it, Sym) and _pure_expr(e):
            # conditions that are symbolic become guards of the elements (no fork per element); shapes that cannot be
            # merged fall back to forking
            try:
                out = self._collect(e.elt, e.generators, first_it)
                if any(g is not None for g, _ in out):
                    return GuardedList(out)
                return [v for _, v in out]
            except MergeFail:
                self.eng.no_merge.add(key)
                raise RestartAll()
        out = []

        def emit():
            out.append(self.ev(e.elt))
        self._comp_forking(e.generators, 0, emit, first_it)
        return out

    def ex_GeneratorExp(self, e):
        return self.ex_ListComp(e)

    def _comp_forking(self, gens, idx, emit, first=_NOFIRST):
        """comprehension whose conditional elements are decided by forking"""
        if idx == len(gens):
            emit()
            return
        g = gens[idx]
        it = first if idx == 0 and first is not _NOFIRST else self.ev(g.iter)
        for guard, x in self.iterate(it):
            if guard is not None and not self.eng.decide(guard):
                continue
            self.assign_nomerge(g.target, x)
            if all(self.eng.truth(self.ev(c)) for c in g.ifs):
                self._comp_forking(gens, idx + 1, emit)

    def ex_SetComp(self, e):
        """set comprehension: a CardSet when the elements are cards of the universe drawn from CardSets
        (conditions become bit guards, no forking); a Python set otherwise"""
        from . import cards
        gens = e.generators
        first_it = self.ev(gens[0].iter)
        if isinstance(first_it, CardSet) and len(gens) == 1 and isinstance(e.elt, ast.Name) \
                and isinstance(gens[0].target, ast.Name) and e.elt.id == gens[0].target.id:
            bits = [z3.BoolVal(False)] * 52
            for i, bit in enumerate(first_it.bits):
                b = z3.simplify(bit) if isinstance(bit, z3.ExprRef) else z3.BoolVal(bool(bit))
                if z3.is_false(b):
                    continue
                self.assign_nomerge(gens[0].target, cards.CARDS[i])
                conds = [b]
                ok = True
                for c in gens[0].ifs:
                    cv = self.ev(c)
                    if isinstance(cv, (SBool, SInt)):
                        conds.append(zbool(cv))
                    elif not cv:
                        ok = False
                        break
                if ok:
                    bits[i] = z3.simplify(z3.And(conds))
            n = self.eng.fresh('setsize')
            cs = CardSet(bits, n)
            self.eng.assume(cs.axioms())
            self.eng.assume(n <= first_it.n)
            return cs
        if isinstance(first_it, (CardSet, GuardedList)):
            pairs = self._collect(e.elt, gens, first_it)
            cs = CardSet([z3.BoolVal(False)] * 52, z3.IntVal(0))
            if pairs and not any(cards.is_card(v) for _, v in pairs):
                return GuardedList(pairs)        # a set of plain values: only membership / iteration are modelled
            for g, v in pairs:
                if not cards.is_card(v):
                    raise Unsupported('guarded set comprehension mixing cards and other values')
                if g is not None:
                    self.eng.under_guard(g, lambda v=v: cards.add(self.eng, cs, v))
                else:
                    cards.add(self.eng, cs, v)
            return cs
        out = []

        def emit():
            out.append(self.ev(e.elt))
        self._comp_forking(gens, 0, emit, first_it)
        if out and all(cards.is_card(v) for v in out) and any(isinstance(v, Sym) for v in out):
            return cards.cardset_from_symbolic_cards(self.eng, out)
        if any(isinstance(v, Sym) for v in out):
            raise Unsupported('set of symbolic non-card values')
        return set(out)

    def ex_DictComp(self, e):
        out = {}

        def emit():
            k = self.ev(e.key)
            if isinstance(k, SEnum):
                k = self.eng.concretize_enum(k)
            if isinstance(k, SStr):
                if not k.is_concrete():
                    raise Unsupported('dict comp symbolic str key')
                k = k.concrete()
            out[k] = self.ev(e.value)
        self._comp_forking(e.generators, 0, emit)
        return out

    def ex_Starred(self, e):
        raise Unsupported('starred')


class _StarOnly:
    def __init__(s, v):
        s.v = v


class AltObj(Sym):
    """one of several mutable objects, selected by guards (e.g. d[k] for a symbolic key k over a dict of sets): method calls
    are applied to every alternative under its guard"""

    def __init__(s, alts):
        s.alts = alts          # [(z3 Bool, object)]


class SymSetLiteral(Sym):
    """a set literal with symbolic members; only membership tests are supported"""

    def __init__(s, items):
        s.items = items


def _pure_expr(e):
    """comprehension without calls to known mutators (its element / conditions can be evaluated under a guard)"""
    for n in ast.walk(e):
        if isinstance(n, ast.Call):
            f = n.func
            nm = f.attr if isinstance(f, ast.Attribute) else getattr(f, 'id', '')
            if nm in MUTATORS:
                return False
        if isinstance(n, (ast.Yield, ast.YieldFrom, ast.Await, ast.NamedExpr)):
            return False
    return True


def _symkey(k):
    """keys that are compared by solver-decided equality (association-list semantics): symbolic integers (e.g. the key of a
    module-level memo) and tuples with symbolic members"""
    return isinstance(k, SInt) or (isinstance(k, SStr) and not k.is_concrete()) or \
        (isinstance(k, tuple) and any(isinstance(x, Sym) for x in k))


def _has_call_to_mutator(e):
    for n in ast.walk(e):
        if isinstance(n, ast.Call):
            f = n.func
            nm = f.attr if isinstance(f, ast.Attribute) else getattr(f, 'id', '')
            if nm in MUTATORS:
                return True
    return False


def _node_key(n):
    return getattr(n, '_abs', None) and (n._abs, type(n).__name__, getattr(n, 'col_offset', 0)) or id(n)


def ast_load(t):
    import copy
    t2 = copy.copy(t)
    t2.ctx = ast.Load()
    return t2
