"""Replays C17 counterexamples: JSON settings (see r_C12.replay_settings) and rendered PBN import files."""
import io
import random


def card_of(i):
    from bridge_env import Card, Suit
    return Card(i % 13 + 2, Suit(i // 13 + 1))


def replay_hand(c):
    """a hand-codec counterexample at file level: write one board holding the hand, read it, play a card from the board that
    was read (the play engine removes cards in place), read the same text again"""
    from bridge_env import Hands
    from bridge_env.data_handler.pbn_handler.parser import PbnParser
    hand = {card_of(i) for i in c['cards']}
    rest = [i for i in range(52) if i not in set(c['cards'])]
    others = [{card_of(i) for i in rest[k::3]} for k in range(3)]
    deal = Hands(set(hand), *[set(o) for o in others])
    text = f'[Board "1"]\n[Dealer "N"]\n[Vulnerable "None"]\n[Deal "{deal.to_pbn()}"]\n'
    bad = []
    first = PbnParser().parse_board_settings(io.StringIO(text))
    if len(first) != 1 or first[0].hands != deal:
        bad.append('the board is not read back as written')
    else:
        for h in (first[0].hands.north, first[0].hands.east):
            if h:
                h.remove(next(iter(h)))          # what playing a card from the parsed board does
        again = PbnParser().parse_board_settings(io.StringIO(text))
        if len(again) != 1 or again[0].hands != deal:
            bad.append('after a card was played from the board read first, reading the same file again gives a different deal '
                       f'(north holds {len(again[0].hands.north) if again else "?"} cards)')
    return bool(bad), f'one board with north = {sorted(map(str, hand))}: ' + '; '.join(bad)


def replay(c):
    if c.get('kind') == 'pbn_hand':
        return replay_hand(c)
    if c.get('kind') == 'settings':
        import r_C12
        return r_C12.replay_settings(c)
    from bridge_env import Hands, Player, Vul
    from bridge_env.data_handler.pbn_handler.parser import PbnParser
    lay, n, si = c['layout'], c['n'], c['symbolic_board']
    rnd = random.Random(11)
    SP = {1: ['None', 'Love', '-'], 2: ['NS'], 3: ['EW'], 4: ['All', 'Both']}
    want = []
    lines = []
    eol = lay['eol']
    if lay['header']:
        lines += ['% PBN 2.1' + eol, '% EXPORT' + eol]
    lines += [b + eol for b in lay['before']]
    for i in range(n):
        pack = list(range(52))
        rnd.shuffle(pack)
        deal = Hands(*[{card_of(x) for x in pack[13 * j:13 * j + 13]} for j in range(4)])
        if i == si:
            dealer = Player(c['dealer'])
            sp = c['vul_spelling']
            vul = [Vul(v) for v, l in SP.items() if sp in l][0]
            first = Player(c['first'])
            bid = c['board_id']
        else:
            dealer, vul, first, bid = Player(1 + i % 4), Vul(1 + (i + 1) % 4), Player(1 + (i + 2) % 4), f'B{i}'
            sp = SP[vul.value][-1]
        want.append((deal, dealer, vul, bid))
        if i:
            lines += [x + eol for x in lay['between']]
        tags = {'Board': bid, 'Dealer': str(dealer), 'Vulnerable': sp, 'Deal': deal.to_pbn(first)}
        names = list(lay['order'])
        if lay['extra']:
            tags['Event'], tags['Scoring'] = 'Verification Cup', 'IMP'
            names = ['Event'] + names + ['Scoring']
        tpos = {'end': len(names), 'start': 0, 'middle': len(names) // 2}[lay.get('table_pos', 'end')] if lay['table'] else None
        for j, k in enumerate(names + [None]):
            if j == tpos:
                lines.append('[OptimumResultTable "Declarer;Denomination\\2R;Result\\2R"]' + eol)
                lines += ['N NT  7' + eol, 'S  S 12' + eol]
            if k is not None:
                lines.append(f'[{k} "{tags[k]}"]{eol}')
    lines += [x + eol for x in lay['after']]
    text = ''.join(lines)
    try:
        got = PbnParser().parse_board_settings(io.StringIO(text, newline=''))
    except Exception as e:
        return True, f'parse_board_settings raised {e!r} on {text!r}'
    bad = []
    if len(got) != n:
        bad.append(f'{len(got)} boards read for {n} games')
    for i, (bs, (deal, dealer, vul, bid)) in enumerate(zip(got, want)):
        if bs.hands != deal or bs.dealer is not dealer or bs.vul is not vul or bs.board_id != bid:
            bad.append(f'board {i}: read dealer={bs.dealer} vul={bs.vul} id={bs.board_id!r} same deal={bs.hands == deal}; written {dealer} {vul} {bid!r}')
    return bool(bad), f'PBN file of {n} games ({text[:60]!r}...): ' + '; '.join(bad[:3])
