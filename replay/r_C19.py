"""Replays C19 counterexamples on the real builders/parsers and on the real framing code (fake socket)."""
import os
import sys

sys.path.insert(0, os.path.dirname(os.path.dirname(os.path.abspath(__file__))))


def card_of(i):
    from bridge_env import Card, Suit
    return Card(i % 13 + 2, Suit(i // 13 + 1))


class CountingSocket:
    def __init__(self, data, limit, chunks=None):
        self.data, self.pos, self.calls, self.limit = data, 0, 0, limit
        self.chunks = list(chunks or [])      # sizes in which the bytes arrive (then one by one)

    def recv(self, n):
        self.calls += 1
        if self.calls > self.limit:
            raise RuntimeError('recv called too often: the receiver does not stop at end of stream')
        if self.pos >= len(self.data):
            return b''
        m = self.chunks.pop(0) if self.chunks else 1
        m = max(1, min(m, n))
        out = self.data[self.pos:self.pos + m]
        self.pos += len(out)
        return out

    def sendall(self, d):
        self.data += d


def replay(c):
    from bridge_env import Bid, Card, Player, Suit, Vul
    from bridge_env.network_bridge.client import Client
    from bridge_env.network_bridge.server import PlayerThread, Server
    from bridge_env.network_bridge.socket_interface import MessageInterface
    k = c['kind']
    if k == 'connect':
        import r_C20
        return r_C20.replay(c)
    try:
        if k == 'bid':
            seat, bid = Player(c['seat']), Bid(c['call'])
            msg = c['message']
            built = Client.create_bid_message(bid, seat.formal_name) + c['alert']
            if built.lower() != msg.lower():
                return False, f'message {msg!r} is not a case variant of the built {built!r}'
            m2 = Server.remove_alert_word(msg) if 'alert' in msg.lower() else msg
            back = MessageInterface.parse_bid(m2, seat.formal_name)
            return back is not bid, f'{msg!r} parsed as {back}, built from {bid}'
        if k == 'sequence':
            bad = []
            back = None
            for b in c['calls']:
                back = MessageInterface.parse_bid(Client.create_bid_message(Bid(b), 'North'), 'North')
            if back is not Bid(c['calls'][1]):
                bad.append(f'second call {Bid(c["calls"][1])} parsed as {back} after {Bid(c["calls"][0])}')
            cb = None
            for r, s in c['cards']:
                card = Card(r, Suit(s))
                cb = MessageInterface.parse_card(f'North plays {Client.card_str(card)}', Player.N)
            if cb != Card(c['cards'][1][0], Suit(c['cards'][1][1])):
                bad.append(f'second card parsed as {cb}')
            return bool(bad), '; '.join(bad)
        if k == 'card':
            seat, card = Player(c['seat']), Card(c['rank'], Suit(c['suit']))
            txt = Client.card_str(card) if c['notation'] == 'rank-suit' else str(card)
            msg = c['message']
            if f'{seat.formal_name} plays {txt}'.lower() != msg.lower():
                return False, 'message is not a case variant of the built text'
            back = MessageInterface.parse_card(msg, seat)
            return back != card, f'{msg!r} parsed as {back}, built from {card}'
        if k == 'header':
            qs = {p: [] for p in Player}

            class Q:
                def __init__(self, l):
                    self.l = l

                def put(self, x):
                    self.l.append(x)
            srv = Server.__new__(Server)
            srv.sent_message_queues = {p: Q(qs[p]) for p in Player}
            srv.players_event = {}
            old = Server._sync_event
            Server._sync_event = staticmethod(lambda *a: None)
            try:
                from bridge_env import Hands
                srv.deal(c['number'], Player(c['dealer']), Vul(c['vul']), Hands(set(), set(), set(), set()), None)
            finally:
                Server._sync_event = old
            hdrs = {qs[p][0] for p in Player}
            if len(hdrs) != 1:
                return True, f'seats got different headers {hdrs}'
            back = Client.parse_board(qs[Player.N][0])
            want = (c['number'], Player(c['dealer']), Vul(c['vul']))
            return back != want, f'header {qs[Player.N][0]!r} parsed as {back}, configured {want}'
        if k == 'hand':
            hand = {card_of(i) for i in c['cards']}
            txt = Server.hand_to_str(set(hand))
            msg = f"{c['who']}'s cards : {txt}"
            hs, vec = Client.parse_hand(Client.parse_cards(msg, c['who']))
            want = tuple(1 if card_of(i) in hand else 0 for i in range(52))
            return hs != hand or tuple(vec) != want, f'{msg!r} parsed as {sorted(map(str, hs))}'
        if k == 'conninfo':
            back = PlayerThread.parse_connection_info(c['message'])
            want = (c['team'], Player(c['seat']), c['version'])
            built = f'Connecting "{c["team"]}" as {Player(c["seat"]).formal_name} using protocol version {c["version"]}'
            if built.lower().replace(c['team'].lower(), '') != c['message'].lower().replace(c['team'].lower(), '') and c['team']:
                pass
            return back != want, f'{c["message"]!r} parsed as {back}, sent {want}'
        if k == 'framing':
            sock = CountingSocket(b'', 10 ** 6)
            mi = MessageInterface(sock)
            for m in c['messages']:
                mi.send_message(m)
            data = sock.data[:c['eof_at']]
            rsock = CountingSocket(data, len(data) + 2 * len(c['messages']) + 4, c.get('chunks'))
            rx = MessageInterface(rsock)
            got = []
            bad = []
            for i in range(len(c['messages']) + 1):
                try:
                    got.append(rx.receive_message())
                except RuntimeError as e:
                    bad.append(str(e))
                    break
                except Exception:
                    break
            n_complete = 0
            pos = 0
            for m in c['messages']:
                L = len(m.encode()) + 2
                if pos + L <= len(data):
                    n_complete += 1
                    pos += L
            if got[:n_complete] != c['messages'][:n_complete]:
                bad.append(f'received {got}, sent {c["messages"]}')
            if len(got) > n_complete:
                bad.append(f'a message was returned after the stream had ended: {got}')
            return bool(bad), f'messages {c["messages"]} stream cut after {c["eof_at"]} bytes: ' + '; '.join(bad)
    except Exception as e:
        return True, f'{k}: raised {e!r} on {c}'
    return False, 'unknown kind'
