"""Replays an auction counterexample on the real BiddingPhase, checking C01/C02/C03 at every step with a plain
oracle that reads the Laws off the explicit history."""
PASS, X, XX = 36, 37, 38


def laws(hist, dealer):
    k = len(hist)
    bids = [(i, c) for i, c in enumerate(hist) if c <= 35]
    maxbid = max([c for _, c in bids], default=0)
    nonpass = [(i, c) for i, c in enumerate(hist) if c != PASS]
    lnp_i, lnp = nonpass[-1] if nonpass else (None, 0)

    def legal(c):
        if c == PASS:
            return True
        if c <= 35:
            return c > maxbid
        if c == X:
            return 1 <= lnp <= 35 and (k - lnp_i) % 2 == 1
        return lnp == X and (k - lnp_i) % 2 == 1
    ended = k >= 4 and all(c == PASS for c in hist[-3:])
    decl = None
    if bids:
        istar = bids[-1][0]
        suit = (maxbid - 1) % 5
        for i, c in bids:
            if (c - 1) % 5 == suit and i % 2 == istar % 2:
                decl = (dealer - 1 + i) % 4 + 1
                break
    return dict(legal=legal, ended=ended, maxbid=maxbid, declarer=decl, doubled=lnp == X, redoubled=lnp == XX,
                turn=(dealer - 1 + k) % 4 + 1)


def state_of(bp):
    import numpy as np
    return (bp.active_player, list(bp.bid_history), {p: list(l) for p, l in bp.players_bid_history.items()},
            np.array(bp.available_bid).tolist(), bp.contract(), bp.has_done())


def check_state(bp, hist, dealer, vul, props, bad, where):
    from bridge_env import Bid, Player
    L = laws(hist, dealer)
    if [b.value for b in bp.bid_history] != hist:
        bad.append(('C02', f'{where}: common history {[str(b) for b in bp.bid_history]} != accepted calls {hist}'))
    for p in Player:
        mine = [hist[j] for j in range(len(hist)) if (dealer - 1 + j) % 4 + 1 == p.value]
        if [b.value for b in bp.players_bid_history[p]] != mine:
            bad.append(('C02', f'{where}: per-seat list of {p} is not its share of the history'))
    if L['ended']:
        if not bp.has_done() or bp.active_player is not None:
            bad.append(('C02', f'{where}: auction has ended by the Laws but has_done() is False'))
        c = bp.contract()
        if c is None:
            bad.append(('C03', f'{where}: no contract at the end'))
        else:
            if L['maxbid'] == 0:
                if not c.is_passed_out() or c.declarer is not None or c.vul.value != vul:
                    bad.append(('C03', f'{where}: passed-out board reported as {c}'))
            else:
                st = 2 if c.xx else (1 if c.x else 0)
                want = 2 if L['redoubled'] else (1 if L['doubled'] else 0)
                if c.final_bid is None or c.final_bid.value != L['maxbid'] or st != want or c.vul.value != vul or \
                        c.declarer is None or c.declarer.value != L['declarer']:
                    bad.append(('C03', f'{where}: contract {c.str_info()} but the Laws give bid {Bid(L["maxbid"])} status {want} '
                                f'declarer {Player(L["declarer"])} vul {vul}'))
    else:
        if bp.has_done():
            bad.append(('C02', f'{where}: has_done() although the auction has not ended by the Laws'))
        else:
            if bp.active_player is None or bp.active_player.value != L['turn']:
                bad.append(('C01C02', f'{where}: turn is {bp.active_player}, should be {Player(L["turn"])}'))
            av = [int(x) for x in bp.available_bid]
            want = [1 if L['legal'](j + 1) else 0 for j in range(38)]
            if av != want:
                diff = [str(Bid(j + 1)) for j in range(38) if av[j] != want[j]]
                bad.append(('C01', f'{where}: available vector differs from the legal set at {diff}'))
            if bp.contract() is not None:
                bad.append(('C03', f'{where}: a contract is reported before the end'))


def replay_two(c):
    """two auctions in one process: the second one must be a fresh auction"""
    from bridge_env import Bid, BiddingPhase, BiddingPhaseState, Player, Vul
    props = c.get('props') or ['C01', 'C02', 'C03']
    A = BiddingPhase(dealer=Player(c['dealer']), vul=Vul(c['vul']))
    B = BiddingPhase(dealer=Player(c['dealer_b']), vul=Vul(c['vul_b'])) if c['when'] == 'before' else None
    for call in c['calls']:
        try:
            A.take_bid(Bid(call))
        except Exception:
            break
    if B is None:
        B = BiddingPhase(dealer=Player(c['dealer_b']), vul=Vul(c['vul_b']))
    bad = []
    check_state(B, [], c['dealer_b'], c['vul_b'], None, bad, f'second auction (constructed {c["when"]} the calls of the first)')
    got, _ = _run([c['b_call']] + [PASS] * 4, c['dealer_b'], c['vul_b'], props, bp=B)
    bad = [m for t, m in bad if any(p in t for p in props)] + got
    return bool(bad), f'first auction dealer {Player(c["dealer"])} calls {[str(Bid(x)) for x in c["calls"]]}; second auction dealer {Player(c["dealer_b"])}: ' + '; '.join(bad[:4])


def replay(c):
    from bridge_env import Bid, BiddingPhase, BiddingPhaseState, Player, Vul
    if c.get('kind') == 'two_auctions':
        return replay_two(c)
    dealer, vul = c['dealer'], c['vul']
    if c.get('kind') == 'after_end':
        # drive some auction to its end that has the requested last bid / doubling state
        seq = [PASS] * 4 if not c.get('lbid') else [c['lbid']] + ([X] if c.get('x') else []) + \
            ([XX] if c.get('xx') and c.get('x') else []) + [PASS] * 3
        calls = seq + [c['call']]
    else:
        calls = list(c['history']) + ([c['call']] if c.get('call') else [])
    props = c.get('props') or ['C01', 'C02', 'C03']
    # close the auction with passes so that the consequences for the final contract become visible; if that shows nothing
    # (state left behind by a call can need a particular continuation to surface), try every continuation of up to four
    # calls over {pass, the cheapest legal bid of each strain, double, redouble}, each closed with passes
    bad, shown = _run(calls + [PASS] * 4, dealer, vul, props)
    if not bad and c.get('kind') != 'after_end':
        import itertools
        base_hist = _accepted(calls, dealer)
        seen = 0
        for cont in _continuations(base_hist, dealer, 4):
            seen += 1
            bad, shown = _run(calls + cont + [PASS] * 4, dealer, vul, props)
            if bad or seen > 6000:
                break
    return bool(bad), f'dealer {Player(dealer)} vul {Vul(vul)} calls {[str(Bid(x)) for x in shown]}: ' + '; '.join(bad[:4])


def _accepted(calls, dealer):
    hist = []
    for call in calls:
        L = laws(hist, dealer)
        if not L['ended'] and L['legal'](call):
            hist.append(call)
    return hist


def _continuations(hist, dealer, depth):
    L = laws(hist, dealer)
    if L['ended'] or depth == 0:
        return
    cands = [PASS]
    for strain in range(5):
        for level in range(7):
            b = level * 5 + strain + 1
            if L['legal'](b):
                cands.append(b)
                break
    cands += [x for x in (X, XX) if L['legal'](x)]
    for cnd in cands:
        yield [cnd]
        for rest in _continuations(hist + [cnd], dealer, depth - 1):
            yield [cnd] + rest


def _run(calls, dealer, vul, props, bp=None):
    from bridge_env import Bid, BiddingPhase, BiddingPhaseState, Player, Vul
    bad = []
    bp = bp or BiddingPhase(dealer=Player(dealer), vul=Vul(vul))
    hist = []
    check_state(bp, hist, dealer, vul, None, bad, 'initially')
    for i, call in enumerate(calls):
        L = laws(hist, dealer)
        before = state_of(bp)
        if L['ended']:
            try:
                r = bp.take_bid(Bid(call))
                bad.append(('C02', f'call {i} ({Bid(call)}) after the end was not refused with an error (returned {r})'))
            except Exception:
                pass
            if state_of(bp) != before:
                bad.append(('C02', f'call {i} ({Bid(call)}) after the end changed the auction'))
            continue
        try:
            r = bp.take_bid(Bid(call))
        except Exception as e:
            bad.append(('C01C02C03', f'call {i} ({Bid(call)}) raised {e!r} in a live auction'))
            break
        if r is BiddingPhaseState.ILLEGAL:
            if L['legal'](call):
                bad.append(('C01', f'call {i} ({Bid(call)}) is legal after {[str(Bid(h)) for h in hist]} but was rejected'))
            if state_of(bp) != before:
                bad.append(('C01', f'rejected call {i} ({Bid(call)}) changed the auction'))
            continue
        if not L['legal'](call):
            bad.append(('C01', f'call {i} ({Bid(call)}) is illegal after {[str(Bid(h)) for h in hist]} but was accepted'))
        hist.append(call)
        L2 = laws(hist, dealer)
        if (r is BiddingPhaseState.FINISHED) != L2['ended']:
            bad.append(('C02', f'call {i} ({Bid(call)}) returned {r.name} but ended-by-the-Laws is {L2["ended"]}'))
        check_state(bp, hist, dealer, vul, None, bad, f'after call {i} ({Bid(call)})')
        if len(bad) > 20:
            break
    bad = [m for t, m in bad if any(p in t for p in props)]
    return bad, calls
