"""Replay of a C09 counterexample: the solver's schedule is forced on the REAL server, seat threads and clients
(in-memory sockets); reproduced iff the session then stops making progress before Server.run has returned."""
import os
import sys

sys.path.insert(0, os.path.dirname(os.path.dirname(os.path.abspath(__file__))))


def replay(c):
    from harness import sessions
    if c['kind'] == 'facts':
        r = sessions.record(c['session'], c.get('seed', 0))
        bad = []
        if not r.get('completed'):
            bad.append('the session does not complete')
        if any(v != 'End of session' for v in r['clients'].values()) or len(r['clients']) != 4:
            bad.append(f'clients ended with {r["clients"]}')
        if r['errors'] or r.get('server_exc'):
            bad.append(f'thread died: {r["errors"]} {r.get("server_exc")}')
        try:
            import json
            json.loads(r['log_text'])
        except Exception as e:
            bad.append(f'log unparseable: {e!r}')
        return bool(bad), f'session {c["session"]}: ' + '; '.join(bad)
    if c['kind'] == 'natural':
        r = sessions.record(c['session'], c.get('seed', 0))
        return (not r.get('completed')), f'session {c["session"]} under the natural schedule: completed={r.get("completed")} ' \
                                         f'blocked at {r.get("blocked_at")} clients {r.get("clients")} errors {r.get("errors")} {r.get("server_exc")}'
    r = sessions.record(c['session'], c.get('seed', 0), mode='replay', schedule=[tuple(x) for x in c['schedule']], idle_s=float(c.get('idle_s', 3.0)))
    short = {k: v for k, v in (r.get('clients') or {}).items() if v != 'End of session'}
    stuck = not r.get('completed') or bool(r.get('errors')) or bool(r.get('server_exc')) or bool(short)
    where = {k: (v and {kk: v.get(kk) for kk in ('kind', 'obj', 'k')}) for k, v in (r.get('blocked_at') or {}).items()}
    return stuck, f'session {c["session"]}: schedule of {len(c["schedule"])} operations forced on the real threads; ' \
                  f'completed={r.get("completed")}; errors {r.get("errors")} {r.get("server_exc")}; clients not sent End of session: {short}; threads blocked in real primitives: {where}'
