"""Replay of a C13 counterexample: the REAL Server.run with four bundled clients over in-memory sockets; the
auction / play of board k raises the given exception (the real methods are wrapped only to inject it); the output
file is then read from disk and parsed."""
import json
import os
import sys

sys.path.insert(0, os.path.dirname(os.path.dirname(os.path.abspath(__file__))))


def replay(c):
    import contextlib
    import io
    from engine import netrec
    from harness import sessions
    from bridge_env.network_bridge import server as server_mod
    n = c['n']
    k = c['abort_board']
    in_play = bool(c['abort_in_play'])
    import builtins
    exc = getattr(builtins, c['exception'])
    boards = sessions.mkboards(n, 3)
    # played boards unless the counterexample says passed out
    scripts = {s: [[] if c['passed_out'][b] else ([1] if s == 'N' else []) for b in range(n)] for s in 'NESW'}
    clients = sessions.bundled_clients('script', scripts=scripts, seed=1)
    S = server_mod.Server
    real_b, real_p = S.bidding_phase, S.playing_phase
    count = {'b': 0}

    def bidding(self, dealer, vul):
        count['b'] += 1
        if count['b'] == k and not in_play:
            raise exc(c.get('message') or 'injected: illegal call')
        return real_b(self, dealer, vul)

    def playing(self, contract, cards):
        if count['b'] == k and in_play:
            raise exc(c.get('message') or 'injected: card not held')
        return real_p(self, contract, cards)
    S.bidding_phase, S.playing_phase = bidding, playing
    try:
        with contextlib.redirect_stdout(io.StringIO()):
            r = netrec.Session(boards, clients, idle_s=2.0).run()
    finally:
        S.bidding_phase, S.playing_phase = real_b, real_p
    aborted = r.get('server_exc') is not None
    text = r.get('log_text')
    bad = []
    expect = (k - 1) if aborted else n
    try:
        doc = json.loads(text)
        if len(doc['logs']) != expect:
            bad.append(f'{len(doc["logs"])} records in the file, {expect} boards were finished')
        elif [l['board_id'] for l in doc['logs']] != [b.board_id for b in boards[:expect]]:
            bad.append('records are not the finished boards in order')
    except Exception as e:
        bad.append(f'output file is not a complete JSON document ({e!r}); tail of the file: {text[-40:]!r}')
    return bool(bad), f'{n} boards, {c["exception"]} in the {"play" if in_play else "auction"} of board {k} (session aborted: {aborted}): ' + '; '.join(bad)
