#!/usr/bin/env python3
"""replay.py <property id> <counterexample.json> — re-run a solver counterexample against the REAL code.

Runs under the repository's own interpreter (/venv/bin/python) with only the repository on the path.
Exit 1: the property is violated by the real code on this input (reproduced); exit 0: not reproduced."""
import importlib
import json
import os
import sys

HERE = os.path.dirname(os.path.abspath(__file__))
sys.path.insert(0, HERE)
sys.path.insert(0, os.environ.get('VERIF_REPO', '/repo'))


def main():
    pid, path = sys.argv[1], sys.argv[2]
    cex = json.load(open(path))
    import logging
    logging.disable(logging.CRITICAL)
    try:
        mod = importlib.import_module('r_' + pid)
        violated, msg = mod.replay(cex)
    except BaseException as e:            # a replayer that cannot run decides nothing
        import traceback
        traceback.print_exc()
        print('replayer error: ' + repr(e))
        sys.exit(3)
    print(('REPRODUCED: ' if violated else 'not reproduced: ') + msg)
    sys.exit(1 if violated else 0)


if __name__ == '__main__':
    main()
