from r_auction import replay  # noqa
