"""Replays a play counterexample on the real PlayingPhaseWithHands (public API only), checking C04/C05 after
every step with a plain reference: follow the plays, compute winners from the rules."""


def card_of(i):
    from bridge_env import Card, Suit
    return Card(i % 13 + 2, Suit(i // 13 + 1))


def winner_index(cards, trump_value):
    """cards: four Card objects in order; trump_value 1..5 (5 NT)"""
    trumps = [(c.rank, j) for j, c in enumerate(cards) if c.suit.value == trump_value]
    if trumps:
        return max(trumps)[1]
    led = cards[0].suit
    return max((c.rank, j) for j, c in enumerate(cards) if c.suit is led)[1]


class Ref:
    def __init__(self, contract, deal):
        self.decl = contract.declarer.value
        self.trump = (contract.final_bid.value - 1) % 5 + 1
        self.leader = self.decl % 4 + 1
        self.turn = self.leader
        self.table = []
        self.trick = 1
        self.taken = {1: 0, 2: 0}
        self.hands = {p: set(cs) for p, cs in deal.items()}
        self.used = set()
        self.history = []

    def play(self, card, seat):
        """returns True when accepted"""
        if seat != self.turn or card not in self.hands[seat]:
            return False
        self.hands[seat].remove(card)
        self.used.add(card)
        self.table.append(card)
        if len(self.table) == 4:
            w = winner_index(self.table, self.trump)
            self.history.append((self.leader, tuple(self.table)))
            self.leader = (self.leader - 1 + w) % 4 + 1
            self.taken[1 if self.leader % 2 == 1 else 2] += 1
            self.turn = self.leader
            self.trick += 1
            self.table = []
        else:
            self.turn = self.turn % 4 + 1
        return True


def observe(env):
    from bridge_env import Pair, Player
    return dict(leader=env.leader.value, turn=env.active_player.value, trick=env.trick_num,
                taken={1: env.taken_tricks[Pair.NS], 2: env.taken_tricks[Pair.EW]},
                hands={p.value: set(env.hands[p]) for p in Player}, used=set(env.used_cards),
                history=[(h.leader.value if hasattr(h.leader, 'value') else h.leader, tuple(h.cards))
                         for h in env.playing_history.history],
                done=env.has_done())


def compare(env, ref, where, bad):
    o = observe(env)
    if o['leader'] != ref.leader:
        bad.append(('C04', f'{where}: leader is {o["leader"]}, the rules give {ref.leader}'))
    if o['turn'] != ref.turn:
        bad.append(('C04C05', f'{where}: seat on turn is {o["turn"]}, the rules give {ref.turn}'))
    if o['trick'] != ref.trick:
        bad.append(('C04', f'{where}: trick number {o["trick"]}, should be {ref.trick}'))
    if o['taken'] != ref.taken:
        bad.append(('C04', f'{where}: trick counts {o["taken"]}, the rules give {ref.taken}'))
    if o['history'] != ref.history:
        bad.append(('C04', f'{where}: recorded history differs from the tricks actually played'))
    if o['hands'] != ref.hands:
        bad.append(('C05', f'{where}: hands differ from (deal minus played cards)'))
    if o['used'] != ref.used:
        bad.append(('C05', f'{where}: played-card set differs from the cards actually played'))
    if o['done'] != (ref.trick > 13):
        bad.append(('C04', f'{where}: has_done() is {o["done"]} with {ref.trick - 1} tricks played'))
    if ref.trick > 13 and (sum(o['taken'].values()) != 13 or any(o['hands'].values())):
        bad.append(('C04C05', f'{where}: after 52 plays counts must total 13 and hands be empty'))


def mk_contract(c):
    from bridge_env import Bid, Contract, Player, Vul
    return Contract(final_bid=Bid(c['bid']), x=bool(c['x']), xx=bool(c['xx']), vul=Vul(c['vul']), declarer=Player(c['declarer']))


def filled_deal(deal):
    """deal: seat -> list of card indices; completes to 4 x 13 with the unused cards"""
    deal = {int(p): list(v) for p, v in deal.items()}
    have = {i for v in deal.values() for i in v}
    free = [i for i in range(52) if i not in have]
    for p in range(1, 5):
        while len(deal[p]) < 13 and free:
            deal[p].append(free.pop())
    return deal


def replay_available(c):
    from bridge_env import PlayingPhase
    hand = {card_of(i) for i in c['hand']}
    led = card_of((c['led'][1] - 1) * 13 + c['led'][0] - 2) if c.get('led') else None
    before = set(hand)
    got = PlayingPhase.available_cards(hand, led)
    same = {x for x in before if led is not None and x.suit is led.suit}
    want = same if same else before
    bad = []
    if set(got) != want:
        bad.append(f'playable set {sorted(map(str, got))} but the rule gives {sorted(map(str, want))}')
    if hand != before:
        bad.append('the hand was modified')
    return bool(bad), f'hand {sorted(map(str, before))} led {led}: ' + '; '.join(bad)


def replay_available_state(c):
    """drive a real board to the state, then compare every wrapper with the follow-suit rule"""
    import random
    from bridge_env import Hands, ObservedPlayingPhase, Player, PlayingPhaseWithHands
    from bridge_env.network_bridge.playing_system import RandomPlay
    contract = mk_contract(c['contract'])
    deal = filled_deal(c['deal'])
    hands = Hands(*[{card_of(i) for i in deal[p]} for p in range(1, 5)])
    env = PlayingPhaseWithHands(contract, hands)
    obs_seat = Player(c.get('observer') or 1)
    dummy = contract.declarer.partner
    obs = ObservedPlayingPhase(contract, obs_seat, {card_of(i) for i in deal[obs_seat.value]})
    obs.set_dummy_hand({card_of(i) for i in deal[dummy.value]})
    for i, s in c['plays']:
        env.play_card_by_player(card_of(i), Player(s))
        obs.play_card_by_player(card_of(i), Player(s))
    n_on_table = len(c['plays']) % 4
    first = card_of(c['plays'][len(c['plays']) - n_on_table][0]) if n_on_table else None
    bad = []

    def rule(hand):
        same = {x for x in hand if first is not None and x.suit is first.suit}
        return same if same else set(hand)
    for p in Player:
        if set(env.current_available_cards_in_hand(p)) != rule(env.hands[p]):
            bad.append(f'full game: playable set of {p} differs from the follow-suit rule')
    if set(obs.current_available_cards_in_hand()) != rule(obs.hand):
        bad.append('observer: playable set of own hand differs from the rule')
    if obs_seat is not dummy and set(obs.current_available_cards_in_dummy_hand()) != rule(obs.dummy_hand):
        bad.append('observer: playable set of dummy hand differs from the rule')
    for seed in range(20):
        random.seed(seed)
        for p in Player:
            if env.hands[p]:
                ch = RandomPlay().play(set(env.hands[p]), env)
                if ch not in rule(env.hands[p]):
                    bad.append(f'example player chose {ch} for {p}, outside the playable set')
                    break
    return bool(bad), f'contract {contract.str_info()} after {len(c["plays"])} plays: ' + '; '.join(bad[:3])


def replay_clone(c):
    """board A gets its opening lead, B = copy.deepcopy(A), the trick is completed on B: A must be unchanged, B must be what a
    fresh board given the same four plays is; then A takes its own second card"""
    import copy
    from bridge_env import Hands, Player, PlayingPhaseWithHands
    contract = mk_contract(c['contract'])
    deal = filled_deal(c['deal'])
    mk = lambda: PlayingPhaseWithHands(contract, Hands(*[{card_of(i) for i in deal[p]} for p in range(1, 5)]))

    def view(o):
        return dict(leader=o.leader, turn=o.active_player, trick=o.trick_num, taken=dict(o.taken_tricks),
                    history=[(h.leader, tuple(h.cards)) for h in o.playing_history.history], table=list(o._trick_cards),
                    hands={p: set(o.hands[p]) for p in Player}, used=set(o.used_cards))
    A, R = mk(), mk()
    plays = [(card_of(i), Player(s)) for i, s in c['plays']]
    bad = []
    try:
        A.play_card_by_player(*plays[0])
        R.play_card_by_player(*plays[0])
        B = copy.deepcopy(A)
    except Exception as e:
        return True, f'lead and deep copy raised {e!r}'
    before = view(A)
    for k in (1, 2, 3):
        try:
            B.play_card_by_player(*plays[k])
            R.play_card_by_player(*plays[k])
        except Exception as e:
            bad.append(f'the copy refused card {k + 1} of the trick ({plays[k][0]} by {plays[k][1]}): {e!r}')
            break
        if view(A) != before:
            diff = [key for key in before if view(A)[key] != before[key]]
            bad.append(f'after card {k + 1} on the copy the original board changed: {diff}')
            break
    if not bad and view(B) != view(R):
        bad.append('the copy differs from a fresh board given the same four plays: ' + str([key for key in view(R) if view(B)[key] != view(R)[key]]))
    if not bad:
        # the original goes on with its own trick (the same three cards): it must behave like the reference did
        for k in (1, 2, 3):
            try:
                A.play_card_by_player(*plays[k])
            except Exception as e:
                bad.append(f'the original refused its own card {k + 1} after the copy had finished the trick: {e!r}')
                break
        if not bad and view(A) != view(R):
            bad.append('the original, played on after the copy, differs from the reference board')
    return bool(bad), f'contract {contract.str_info()}: ' + '; '.join(bad[:3])


def replay_observer(c):
    """full-information game and a single-seat observer driven through the same plays (dummy disclosed to the
    observer after the opening lead unless it sits in dummy's seat), then the offered play"""
    from bridge_env import Hands, ObservedPlayingPhase, Pair, Player, PlayingPhaseWithHands
    props = c.get('props') or ['C05', 'C11']
    contract = mk_contract(c['contract'])
    deal = filled_deal(c['deal'])
    env = PlayingPhaseWithHands(contract, Hands(*[{card_of(i) for i in deal[p]} for p in range(1, 5)]))
    seat = Player(c['observer'])
    dummy = contract.declarer.partner
    own = {card_of(i) for i in deal[seat.value]}
    obs = ObservedPlayingPhase(contract, seat, own)
    mode = c.get('mode')
    if mode in ('is_dummy_alias', 'is_dummy_copy') and seat is dummy:
        obs.set_dummy_hand(own if mode == 'is_dummy_alias' else set(own))   # how the hands are handed in is part of the input
    ref = Ref(contract, {p: {card_of(i) for i in deal[p]} for p in range(1, 5)})
    bad = []

    def view(o):
        return dict(leader=o.leader, turn=o.active_player, trick=o.trick_num, taken=dict(o.taken_tricks),
                    history=[(h.leader, tuple(h.cards)) for h in o.playing_history.history], table=list(o._trick_cards),
                    contract=o.contract, declarer=o.declarer, dummy=o.dummy, done=o.has_done())
    steps = [tuple(x) for x in c['plays']] + [tuple(c['attempt'])]
    for k, (i, s) in enumerate(steps):
        card, pl = card_of(i), Player(s)
        where = f'step {k} ({card} by {pl})'
        before = (view(obs), set(obs.hand), None if obs.dummy_hand is None else set(obs.dummy_hand))
        ok = ref.play(card, s)
        try:
            env.play_card_by_player(card, pl)
            f_ok = True
        except Exception:
            f_ok = False
        known_dummy = obs.dummy_hand is not None
        should = (pl is before[0]['turn'] and (pl is not seat or card in before[1]) and
                  (pl is not dummy or pl is seat or (known_dummy and card in before[2])))
        try:
            obs.play_card_by_player(card, pl)
            o_ok = True
        except Exception:
            o_ok = False
        if o_ok != should:
            bad.append(('C05', f'{where}: observer {"accepted" if o_ok else "refused"} but its own rules say {"accept" if should else "refuse"}'))
        if not o_ok:
            after = (view(obs), set(obs.hand), None if obs.dummy_hand is None else set(obs.dummy_hand))
            if after != before:
                bad.append(('C05', f'{where}: a play refused by the observer changed it'))
            if f_ok:
                bad.append(('C11', f'{where}: accepted by the full game, rejected by the observer'))
                break
            continue
        if not f_ok:
            break
        if k == 0 and seat is not dummy:
            obs.set_dummy_hand(set(env.hands[dummy]))
        if view(obs) != view(env):
            a, b = view(obs), view(env)
            diff = [key for key in a if a[key] != b[key]]
            bad.append(('C11', f'after {where}: observer and full game disagree on {diff}'))
        if set(obs.hand) != set(env.hands[seat]):
            bad.append(('C05C11', f'after {where}: observer\'s own hand differs from that seat\'s hand'))
        if (seat is not dummy or mode == 'is_dummy_alias') and set(obs.dummy_hand) != set(env.hands[dummy]):
            bad.append(('C05C11', f'after {where}: observer\'s view of dummy differs from dummy\'s hand'))
        if bad:
            break
    bad = [m for t, m in bad if any(p in t for p in props)]
    return bool(bad), f'contract {contract.str_info()} observer {seat}: ' + '; '.join(bad[:3])


def replay_available_sequence(c):
    from bridge_env import ObservedPlayingPhase, Player
    contract = mk_contract(c['contract'])
    deal = filled_deal(c['deal'])
    seat = Player(c['observer'])
    dummy = contract.declarer.partner
    hands = {p: {card_of(i) for i in deal[p]} for p in range(1, 5)}
    obs = ObservedPlayingPhase(contract, seat, set(hands[seat.value]))
    bad = []
    led = None

    def rule(hand):
        same = {x for x in hand if led is not None and x.suit is led.suit}
        return same if same else set(hand)

    def query(when):
        if set(obs.current_available_cards_in_hand()) != rule(hands[seat.value]):
            bad.append(f'{when}: playable set of the own hand is not the follow-suit rule on the current hand')
        if seat is not dummy and obs.dummy_hand is not None and set(obs.current_available_cards_in_dummy_hand()) != rule(hands[dummy.value]):
            bad.append(f'{when}: playable set of dummy\'s hand is not the follow-suit rule on the current hand')
    query('before the opening lead')
    turn = contract.declarer.left
    for k, i in enumerate(c['cards']):
        card = card_of(i)
        if card not in hands[turn.value]:
            return False, 'counterexample plays a card the seat does not hold'
        obs.play_card_by_player(card, turn)
        hands[turn.value].discard(card)
        if k == 0:
            led = card
            if seat is not dummy:
                obs.set_dummy_hand(set(hands[dummy.value]))
        if k < 3:
            query(f'after play {k} ({card} by {turn})')
        turn = turn.left
    return bool(bad), f'observer {seat}, contract {contract.str_info()}: ' + '; '.join(bad[:3])


def replay_two_boards(c):
    """two real boards in one process: a lead to the first must not reach the second"""
    from bridge_env import Hands, Pair, Player, PlayingPhaseWithHands
    props = c.get('props') or ['C04', 'C05', 'C06']

    def mk(d):
        contract = mk_contract(d['contract'])
        deal = filled_deal(d['deal'])
        return contract, deal, PlayingPhaseWithHands(contract, Hands(*[{card_of(i) for i in deal[p]} for p in range(1, 5)]))
    ca, da, A = mk(c['a'])
    B = mk(c['b'])[2] if c['when'] == 'before' else None
    A.play_card_by_player(card_of(c['lead']), ca.declarer.next_player)
    if B is None:
        cb, db, B = mk(c['b'])
    else:
        cb, db = mk_contract(c['b']['contract']), filled_deal(c['b']['deal'])
    bad = []
    lb = cb.declarer.next_player
    if B.leader is not lb or B.active_player is not lb or B.trick_num != 1 or sum(B.taken_tricks.values()) != 0 or len(B.playing_history.history) != 0:
        bad.append(('C04', f'second board: leader {B.leader}, turn {B.active_player}, trick {B.trick_num}, counts {dict(B.taken_tricks)}'))
    if any(set(B.hands[p]) != {card_of(i) for i in db[p.value]} for p in Player) or B.used_cards:
        bad.append(('C05', 'second board: hands are not its own deal / played cards not empty'))
    got = set(B.current_available_cards_in_hand(lb))
    if got != {card_of(i) for i in db[lb.value]}:
        bad.append(('C04C05C06', f'second board: its leader {lb} is offered {sorted(map(str, got))} instead of the whole hand '
                                 f'(a card was led to ANOTHER board: {card_of(c["lead"])})'))
    bad = [m for t, m in bad if any(p in t for p in props)]
    return bool(bad), f'two boards, second constructed {c["when"]} the lead to the first: ' + '; '.join(bad)


def replay(c):
    import copy
    if c.get('kind') == 'two_boards':
        return replay_two_boards(c)
    if c.get('kind') == 'clone':
        return replay_clone(c)
    if c.get('kind') == 'observer':
        return replay_observer(c)
    if c.get('kind') == 'replicas':
        import os
        import sys
        sys.path.insert(0, os.path.dirname(os.path.dirname(os.path.abspath(__file__))))
        from harness import transcripts
        bad, r = transcripts.check_replicas(c['session'], c.get('seed', 0))
        return bool(bad), f'session {c["session"]}: ' + '; '.join(bad[:3])
    if c.get('kind') == 'available':
        return replay_available(c)
    if c.get('kind') == 'available_sequence':
        return replay_available_sequence(c)
    if c.get('kind') == 'available_state':
        return replay_available_state(c)
    from bridge_env import Hands, Player, PlayingPhaseWithHands
    props = c.get('props') or ['C04', 'C05']
    bad = []
    kind = c['kind']
    if kind == 'init':
        contract = mk_contract(c['contract'])
        deal = filled_deal({})
        steps = []
    elif kind == 'has_done':
        from bridge_env import Bid, Contract, Vul
        contract = mk_contract({'bid': 5, 'x': False, 'xx': False, 'vul': 1, 'declarer': 1})
        deal = filled_deal({})
        steps = None        # a whole board: every seat plays its lowest remaining card index
    else:
        contract = mk_contract(c['contract'])
        deal = filled_deal(c['deal'])
        if kind == 'play':
            steps = [(i, s) for i, s in c['plays']] + [tuple(c['attempt'])]
        else:
            steps = [(i, None) for i in c['cards']]
    hands = Hands(*[{card_of(i) for i in deal[p]} for p in range(1, 5)])
    ref = Ref(contract, {p: {card_of(i) for i in deal[p]} for p in range(1, 5)})
    try:
        env = PlayingPhaseWithHands(contract, hands)
    except Exception as e:
        return True, f'constructor raised {e!r}'
    if env.dummy.value != (contract.declarer.value + 1) % 4 + 1:
        bad.append(('C04', f'dummy is {env.dummy}, should be declarer\'s partner'))
    compare(env, ref, 'initially', bad)
    if steps is None:
        steps = []
        sim = copy.deepcopy(ref)
        while sim.trick <= 13:
            card = min(sim.hands[sim.turn], key=int)
            steps.append((int(card), sim.turn))
            sim.play(card, sim.turn)
    for k, (i, seat) in enumerate(steps):
        card = card_of(i)
        seat = ref.turn if seat is None else seat
        before = observe(env)
        ok = ref.play(card, seat)
        try:
            env.play_card_by_player(card, Player(seat))
            accepted, err = True, None
        except Exception as e:
            accepted, err = False, e
        where = f'step {k} ({card} by {Player(seat)})'
        if accepted != ok:
            bad.append(('C05', f'{where}: {"accepted" if accepted else "refused"} but the rules say {"accept" if ok else "refuse"}'))
            break
        if not accepted:
            if not isinstance(err, ValueError):
                bad.append(('C05', f'{where}: refusal is {type(err).__name__}, not ValueError'))
            if observe(env) != before:
                bad.append(('C05', f'{where}: a refused play changed the state'))
            continue
        compare(env, ref, 'after ' + where, bad)
        if len(bad) > 10:
            break
    bad = [m for t, m in bad if any(p in t for p in props)]
    return bool(bad), f'contract {contract.str_info()} : ' + '; '.join(bad[:4])
