def replay(c):
    from bridge_env import Bid, Card, Contract, Player, Suit, Vul
    k = c.get('kind')
    if k in ('contract_seq', 'bid_seq', 'card_seq'):
        return replay_seq(c)
    try:
        if k in ('card_int', 'card_str'):
            card = Card(c['rank'], Suit(c['suit']))
            bad = []
            if Card.int_to_card(int(card)) != card or int(card) != (c['suit'] - 1) * 13 + c['rank'] - 2:
                bad.append(f'int {int(card)} -> {Card.int_to_card(int(card))}')
            if Card.str_to_card(str(card)) != card or len(str(card)) != 2:
                bad.append(f'str {str(card)!r} -> {Card.str_to_card(str(card))}')
            if Card.rank_str_to_int(Card.rank_int_to_str(card.rank)) != card.rank or str(card)[1:] != Card.rank_int_to_str(card.rank):
                bad.append('rank letter')
            return bool(bad), f'{card!r}: ' + '; '.join(bad)
        if k == 'int_card':
            x = c['x']
            try:
                card = Card.int_to_card(x)
            except ValueError:
                return 0 <= x <= 51, f'int_to_card({x}) refused'
            except Exception as e:
                return True, f'int_to_card({x}) raised {e!r}'
            return not (0 <= x <= 51) or int(card) != x, f'int_to_card({x}) = {card!r}, int = {int(card)}'
        if k in ('card_inj', 'card_order'):
            a = Card(c['a'][0], Suit(c['a'][1]))
            b = Card(c['b'][0], Suit(c['b'][1]))
            if k == 'card_inj':
                return (str(a) == str(b) or int(a) == int(b)) and a != b, f'{a!r} {b!r}: {str(a)} {str(b)} {int(a)} {int(b)}'
            ok = ((a < b) == (int(a) < int(b)) and (a <= b) == (int(a) <= int(b)) and (a > b) == (int(a) > int(b))
                  and (a >= b) == (int(a) >= int(b)))
            ia, ib = (c['a'][1] - 1) * 13 + c['a'][0] - 2, (c['b'][1] - 1) * 13 + c['b'][0] - 2
            ok = ok and (a < b) == (ia < ib)
            return not ok, f'order of {a!r} and {b!r} disagrees with index order'
        if k == 'bid':
            b = Bid(c['call'])
            bad = []
            if b.idx != b.value - 1 or Bid.int_to_bid(b.idx) is not b:
                bad.append('idx')
            if Bid.str_to_bid(str(b)) is not b:
                bad.append(f'str {str(b)!r}')
            if b.value <= 35:
                if b.level != (b.value - 1) // 5 + 1 or b.suit is not Suit((b.value - 1) % 5 + 1):
                    bad.append('level/suit')
                elif Bid.level_suit_to_bid(b.level, b.suit) is not b:
                    bad.append('level_suit_to_bid')
            elif b.level is not None or b.suit is not None:
                bad.append('level/suit of Pass/X/XX')
            return bool(bad), f'{b!r}: ' + ', '.join(bad)
        if k == 'bid_inj':
            a, b = Bid(c['a']), Bid(c['b'])
            return str(a) == str(b) or a.idx == b.idx, f'{a!r} {b!r} share a notation'
        if k == 'level_suit':
            b = Bid.level_suit_to_bid(c['level'], Suit(c['denom']))
            return b.level != c['level'] or b.suit is not Suit(c['denom']), f'level_suit_to_bid({c["level"]}, {Suit(c["denom"])}) = {b!r}'
        if k == 'player':
            p = Player(c['seat'])
            return (Player.convert_formal_name(p.formal_name) is not p or Player[str(p)] is not p
                    or p.formal_name[:1] != str(p)), f'{p!r}: {p.formal_name!r} {str(p)!r}'
        if k == 'player_inj':
            a, b = Player(c['a']), Player(c['b'])
            return a.formal_name == b.formal_name or str(a) == str(b), f'{a!r} {b!r} share a notation'
        if k == 'vul':
            v = Vul(c['vul'])
            return Vul.str_to_vul(str(v)) is not v or Vul.str_to_vul(v.pbn_format()) is not v, f'{v!r}: {str(v)!r} {v.pbn_format()!r}'
        if k == 'vul_inj':
            a, b = Vul(c['a']), Vul(c['b'])
            bad = str(a) == str(b) or a.pbn_format() == b.pbn_format()
            for text, want in (('Love', 1), ('-', 1), ('None', 1), ('All', 4), ('Both', 4), ('NS', 2), ('EW', 3)):
                bad = bad or Vul.str_to_vul(text).value != want
            return bad, f'{a!r} {b!r} share a notation or a spelling is misread'
        if k == 'contract':
            fb = None if c['bid'] is None else Bid(c['bid'])
            decl = Player(c['declarer']) if c['declarer'] else None
            con = Contract(fb, x=c['x'], xx=c['xx'], vul=Vul(c['vul']), declarer=decl)
            back = Contract.str_to_contract(str(con), vul=con.vul, declarer=decl)
            st = lambda k_: 2 if k_.xx else 1 if k_.x else 0
            if con.is_passed_out():
                bad = not back.is_passed_out() or back.declarer is not None or back.vul is not con.vul
            else:
                bad = (back.final_bid is not con.final_bid or back.level != con.level or back.trump is not con.trump
                       or back.vul is not con.vul or back.declarer is not decl or st(back) != st(con))
            return bad, f'{con!r} prints {str(con)!r} parses to {back!r}'
        if k == 'contract_inj':
            mk = lambda b, s: Contract(Bid(b), x=s >= 1, xx=s == 2, vul=Vul.NONE, declarer=Player.N)
            a, b = mk(*c['a']), mk(*c['b'])
            return str(a) == str(b), f'{a!r} and {b!r} both print {str(a)!r}'
    except Exception as e:
        return True, f'raised {type(e).__name__}: {e}'
    return False, 'unknown counterexample kind'


def replay_seq(c):
    from bridge_env import Bid, Card, Contract, Player, Suit, Vul
    k = c['kind']
    try:
        if k == 'contract_seq':
            vul, decl = Vul(c['vul']), Player(c['declarer'])
            mk = lambda b, st: Contract(Bid(b), x=st >= 1, xx=st == 2, vul=vul, declarer=decl)
            first, second = mk(*c['first']), mk(*c['second'])
            Contract.str_to_contract(str(first), vul, decl)
            back = Contract.str_to_contract(str(second), vul, decl)
            st = lambda q: 2 if q.xx else (1 if q.x else 0)
            bad = back.final_bid is not second.final_bid or st(back) != st(second) or back.vul is not vul or back.declarer is not decl
            return bad, f'after parsing {str(first)!r}, {str(second)!r} parses to {back!r}'
        if k == 'bid_seq':
            Bid.str_to_bid(str(Bid(c['first'])))
            b = Bid(c['second'])
            back = Bid.str_to_bid(str(b))
            return back is not b, f'after {Bid(c["first"])}, {str(b)!r} parses to {back}'
        a = Card(c['first'][0], Suit(c['first'][1]))
        b = Card(c['second'][0], Suit(c['second'][1]))
        Card.str_to_card(str(a))
        Card.int_to_card(int(a))
        bad = Card.str_to_card(str(b)) != b or Card.int_to_card(int(b)) != b
        return bad, f'after {a}, {b} converts back wrongly'
    except Exception as e:
        return True, f'{k}: raised {e!r}'
