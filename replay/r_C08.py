from r_table import replay  # noqa
