OFFICIAL = (20, 50, 90, 130, 170, 220, 270, 320, 370, 430, 500, 600, 750, 900, 1100, 1300, 1500, 1750,
            2000, 2250, 2500, 3000, 3500, 4000)


def ref(d):
    k = sum(1 for lo in OFFICIAL if abs(d) >= lo)
    return k if d >= 0 else -k


def replay(c):
    from bridge_env.score import point_difference_to_imps as f, score_to_imp
    kind = c.get('kind')
    try:
        if kind == 'scale':
            got = f(c['d'])
            return (got != ref(c['d']) or not -24 <= got <= 24), f"f({c['d']}) = {got}, official scale {ref(c['d'])}"
        if kind == 'odd':
            return f(-c['d']) != -f(c['d']), f"f({c['d']}) = {f(c['d'])}, f({-c['d']}) = {f(-c['d'])}"
        if kind == 'monotone':
            fa = f(c['a'])
            fb = f(c['b'])        # second conversion in the same process
            return (fa > fb or fb != ref(c['b'])), f"a={c['a']} <= b={c['b']}: f(a)={fa}, then f(b)={fb} (official scale {ref(c['b'])})"
        if kind == 'two':
            got = score_to_imp(c['a'], c['b'])
            return got != ref(c['a'] + c['b']), f"score_to_imp({c['a']}, {c['b']}) = {got}, scale {ref(c['a'] + c['b'])}"
    except Exception as e:   # the property promises a value for every integer
        return True, f'raised {type(e).__name__}: {e}'
    return False, 'unknown counterexample kind'
