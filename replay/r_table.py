"""Replays counterexamples of the table manager's main-thread iterations (C10 / C08) on the REAL Server.bidding_phase /
Server.playing_phase / Server.deal with real queues pre-loaded with the seats' messages (built by the real Client code)."""
import os
import queue
import sys
import threading

sys.path.insert(0, os.path.dirname(os.path.dirname(os.path.abspath(__file__))))
import r_auction
import r_play


def mk_server():
    import pathlib
    from bridge_env import Player
    from bridge_env.network_bridge import server as server_mod
    srv = server_mod.Server('x', 0, pathlib.Path('/tmp/none.json'), None)
    server_mod.time.sleep = lambda s: None
    return srv


def drain(q):
    out = []
    while True:
        try:
            out.append(q.get_nowait())
        except queue.Empty:
            return out


def run_with_timeout(fn, timeout=20):
    res = {}

    def go():
        try:
            res['ret'] = fn()
        except BaseException as e:
            res['exc'] = e
    t = threading.Thread(target=go, daemon=True)
    t.start()
    t.join(timeout)
    res['hung'] = t.is_alive()
    return res


def replay_bidding(c):
    from bridge_env import Bid, Player, Vul
    from bridge_env.network_bridge.client import Client
    from bridge_env.network_bridge.server import Server
    props = c.get('props') or ['C08', 'C10']
    dealer = c['dealer']
    calls = list(c['history']) + [c['call']] + [36] * 4
    srv = mk_server()
    # pre-load: every seat's future messages in its own queue (the offending one carries the counterexample's text)
    hist, turn = [], dealer
    planned = []
    for k, call in enumerate(calls):
        L = r_auction.laws(hist, dealer)
        if L['ended']:
            break
        seat = Player(turn)
        text = c['message'] if k == len(c['history']) and c.get('message') else Client.create_bid_message(Bid(call), seat.formal_name)
        srv.received_message_queues[seat].put(text)
        planned.append((seat, call, text, L['legal'](call)))
        if not L['legal'](call):
            break
        hist.append(call)
        turn = turn % 4 + 1
    res = run_with_timeout(lambda: srv.bidding_phase(Player(dealer), Vul(c['vul'])))
    got = {p: drain(srv.sent_message_queues[p]) for p in Player}
    want = {p: [] for p in Player}
    illegal = False
    for seat, call, text, legal in planned:
        for p in Player:
            want[p].append(seat.formal_name)
        stripped = Server.remove_alert_word(text) if 'alert' in text.lower() else text
        if not legal:
            illegal = True
            for p in Player:
                want[p].append(Server.Message.ILLEGAL_BID if p is seat else Server.Message.ERROR)
            break
        for p in Player:
            if p is not seat:
                want[p].append(stripped)
    bad = []
    if res['hung']:
        bad.append(('C08C10', 'bidding_phase did not return'))
    if illegal != ('exc' in res):
        bad.append(('C08C10', f'illegal call expected={illegal} but exception={res.get("exc")!r}'))
    if not illegal and 'ret' in res:
        L = r_auction.laws(hist, dealer)
        for p in Player:
            want[p] += [Server.Message.NULL, Server.Message.PASSED_OUT if L['maxbid'] == 0 else Server.Message.NULL]
        contract, bh = res['ret']
        if [b.value for b in bh] != hist:
            bad.append(('C08', f'recorded auction {[str(b) for b in bh]} is not the calls the seats sent'))
        st = 2 if contract.xx else (1 if contract.x else 0)
        if (L['maxbid'] == 0) != contract.is_passed_out() or (L['maxbid'] and (contract.final_bid.value != L['maxbid'] or contract.declarer.value != L['declarer']
                                                                               or st != (2 if L['redoubled'] else 1 if L['doubled'] else 0))):
            bad.append(('C08', f'contract {contract.str_info()} does not follow from the calls by the rules'))
    for p in Player:
        if got[p] != want[p]:
            bad.append(('C10', f'{p} was queued {got[p]}, entitled to {want[p]}'))
    bad = [m for t, m in bad if any(q in t for q in props)]
    return bool(bad), f'auction dealer {Player(dealer)} calls {[str(Bid(x)) for x in calls]}: ' + '; '.join(bad[:3])


def replay_playing(c):
    import copy
    from bridge_env import Hands, Player
    from bridge_env.network_bridge.client import Client
    from bridge_env.network_bridge.server import Server
    props = c.get('props') or ['C08', 'C10']
    contract = r_play.mk_contract(c['contract'])
    deal = r_play.filled_deal(c['deal'])
    hands = Hands(*[{r_play.card_of(i) for i in deal[p]} for p in range(1, 5)])
    ref = r_play.Ref(contract, {p: {r_play.card_of(i) for i in deal[p]} for p in range(1, 5)})
    declarer, dummy = contract.declarer, contract.declarer.partner
    srv = mk_server()
    steps = [tuple(x) for x in c['plays']] + [tuple(c['attempt'])]
    want = {p: [declarer.formal_name] for p in Player}
    k = 0
    refused = False
    sim = copy.deepcopy(ref)
    tricks = []
    while sim.trick <= 13:
        seat = Player(sim.turn)
        sender = declarer if seat is dummy else seat
        if len(sim.table) == 0:
            for p in Player:
                want[p].append(Player(sim.leader).formal_name)
        if k < len(steps):
            card = r_play.card_of(steps[k][0])
            text = c['message'] if k == len(steps) - 1 and c.get('message') else f'{seat.formal_name} plays {Client.card_str(card)}'
        else:
            card = min(sim.hands[sim.turn], key=int)
            text = f'{seat.formal_name} plays {Client.card_str(card)}'
        srv.received_message_queues[sender].put(text)
        first = sim.trick == 1 and len(sim.table) == 0
        if not sim.play(card, seat.value):
            refused = True
            break
        for p in Player:
            if p is not sender:
                want[p].append(text)
        if first:
            for p in Player:
                if p is not dummy:
                    want[p].append("Dummy's cards : " + Server.hand_to_str(hands[dummy]))
        k += 1
    original = copy.deepcopy(hands)
    res = run_with_timeout(lambda: srv.playing_phase(contract, hands))
    got = {p: drain(srv.sent_message_queues[p]) for p in Player}
    bad = []
    if res['hung']:
        bad.append(('C08C10', 'playing_phase did not return'))
    if refused != ('exc' in res):
        bad.append(('C08C10', f'refusal expected={refused}, exception={res.get("exc")!r}'))
    for p in Player:
        if got[p] != want[p]:
            j = next((i for i, (a, b) in enumerate(zip(got[p], want[p])) if a != b), min(len(got[p]), len(want[p])))
            bad.append(('C10', f'{p}: message {j} queued {got[p][j:j + 2]}, entitled to {want[p][j:j + 2]}'))
    if 'ret' in res:
        hist, tricks_won = res['ret']
        if [(h.leader.value, tuple(h.cards)) for h in hist.history] != sim.history:
            bad.append(('C08', 'recorded play is not the cards the seats sent'))
        if tricks_won != sim.taken[1 if declarer.value % 2 else 2]:
            bad.append(('C08', f'tricks for declarer {tricks_won}, the rules give {sim.taken[1 if declarer.value % 2 else 2]}'))
    bad = [m for t, m in bad if any(q in t for q in props)]
    return bool(bad), f'play of {contract.str_info()}: ' + '; '.join(bad[:3])


def replay_deal(c):
    from bridge_env import Hands, Player, Vul
    from bridge_env.network_bridge.client import Client
    from bridge_env.network_bridge.server import Server
    srv = mk_server()
    old = Server._sync_event
    Server._sync_event = staticmethod(lambda *a: None)
    pack = list(range(52))
    hands = Hands(*[{r_play.card_of(i) for i in pack[13 * j:13 * j + 13]} for j in range(4)])
    try:
        srv.deal(c['number'], Player(c['dealer']), Vul(c['vul']), hands, None)
    finally:
        Server._sync_event = old
    bad = []
    vt = {1: 'Neither', 2: 'N/S', 3: 'E/W', 4: 'Both'}[c['vul']]
    for p in Player:
        got = drain(srv.sent_message_queues[p])
        want = [f'Board number {c["number"]}. Dealer {Player(c["dealer"]).formal_name}. {vt} vulnerable.',
                f"{p.formal_name}'s cards : " + Server.hand_to_str(hands[p])]
        if got != want:
            bad.append(f'{p} was queued {got}, entitled to {want}')
    return bool(bad), 'deal: ' + '; '.join(bad[:2])


class ScriptSock:
    def __init__(self, lines):
        self.buf = b''.join((l + '\r\n').encode() for l in lines)
        self.sent = []
        self.pos = 0
        self.ev = threading.Event()

    def recv(self, n):
        if self.pos >= len(self.buf):
            self.ev.wait(30)          # script exhausted: block like a silent peer (the replay has a timeout)
            return b''
        out = self.buf[self.pos:self.pos + n]
        self.pos += n
        return out

    def sendall(self, d):
        self.sent.append(d.decode().rstrip('\r\n'))

    def close(self):
        pass


def replay_thread_playing(c):
    """the REAL PlayerThread._playing_phase is run on a scripted connection and scripted queues through tricks 1..T so
    that the counterexample's situation (own seat, declarer, seat on turn, trick, position) occurs; everything it sends is
    compared with what the protocol entitles the connection to"""
    from bridge_env import Player
    from bridge_env.network_bridge.server import PlayerThread
    N = {1: 'North', 2: 'East', 3: 'South', 4: 'West'}
    pv, dv, av, tn, pos = c['seat'], c['declarer'], c['on_turn'], c['trick'], c['i']
    dummy = (dv + 1) % 4 + 1
    leaders = {}
    for t in range(1, tn + 1):
        leaders[t] = dv % 4 + 1 if t == 1 else dv
    leaders[tn] = (av - 1 - pos) % 4 + 1 if tn > 1 else leaders[1]
    if tn == 1 and (leaders[1] - 1 + pos) % 4 + 1 != av:
        return False, 'situation not reachable at trick 1'
    inbox, from_main, want, fwd_want = [], [N[dv]], [], []
    for t in range(1, tn + 1):
        from_main.append(N[leaders[t]])
        for i in range(4):
            a = (leaders[t] - 1 + i) % 4 + 1
            mine = a == pv and pv != dummy
            for_dummy = pv == dv and a == dummy
            card = f'{N[a]} plays {"23456789TJQKA"[(t + i) % 13]}{"CDHS"[i]}'
            if mine or for_dummy:
                if i == 0:
                    want.append(f'{N[pv]} to lead' if mine else 'Dummy to lead')
                inbox.append(card)
                fwd_want.append(card)
            else:
                inbox.append(f"{N[pv]} ready for {N[a] if a != dummy else 'dummy'}'s card to trick {t}")
                from_main.append(card)
                want.append(card)
            if t == 1 and i == 0 and pv != dummy:
                inbox.append(f'{N[pv]} ready for dummy')
                from_main.append("Dummy's cards : S -. H -. D -. C -.")
                want.append("Dummy's cards : S -. H -. D -. C -.")
    sock = ScriptSock(inbox)
    qs_to, qs_from = {p: queue.Queue() for p in Player}, {p: queue.Queue() for p in Player}
    for m in from_main:
        qs_from[Player(pv)].put(m)
    th = PlayerThread(connection=sock, event_sync=None, event_thread=None, sent_message_queues=qs_to, received_message_queues=qs_from,
                      players_event={}, team_names={})
    th.player = Player(pv)
    res = run_with_timeout(th._playing_phase, timeout=3)
    sock.ev.set()
    got = sock.sent
    fwd = drain(qs_to[Player(pv)])
    bad = []
    if 'exc' in res:
        bad.append(f'seat thread raised {res["exc"]!r}')
    if got[:len(want)] != want:
        j = next((k for k, (x, y) in enumerate(zip(got, want)) if x != y), min(len(got), len(want)))
        bad.append(f'message {j} sent to the connection: {got[j:j + 1]}, entitled to {want[j:j + 1]}')
    if fwd[:len(fwd_want)] != fwd_want:
        bad.append('cards forwarded to the main thread differ from the cards the client sent')
    return bool(bad), f'seat {N[pv]} (declarer {N[dv]}) through trick {tn}: ' + '; '.join(bad)


def replay_thread_bidding(c):
    from bridge_env import Player
    from bridge_env.network_bridge.server import PlayerThread, Server
    N = {1: 'North', 2: 'East', 3: 'South', 4: 'West'}
    pv, av = c['seat'], c['on_turn']
    mine = pv == av
    call, relayed = f'{N[av]} bids 1NT Alert.', f'{N[av]} bids 1NT'
    sock = ScriptSock([call] if mine else [f"{N[pv]} ready for {N[av]}'s bid"])
    qs_to, qs_from = {p: queue.Queue() for p in Player}, {p: queue.Queue() for p in Player}
    for m in [N[av]] + ([] if mine else [relayed]) + [Server.Message.NULL]:
        qs_from[Player(pv)].put(m)
    th = PlayerThread(connection=sock, event_sync=None, event_thread=None, sent_message_queues=qs_to, received_message_queues=qs_from,
                      players_event={}, team_names={})
    th.player = Player(pv)
    res = run_with_timeout(th._bidding_phase, timeout=3)
    sock.ev.set()
    bad = []
    if sock.sent != ([] if mine else [relayed]):
        bad.append(f'connection was sent {sock.sent}')
    if drain(qs_to[Player(pv)]) != ([call] if mine else []):
        bad.append('forwarding to the main thread differs')
    if res.get('ret') is not True:
        bad.append(f'loop did not end normally: {res}')
    return bool(bad), f'seat {N[pv]}, {N[av]} to call: ' + '; '.join(bad)


def replay_assembly_direct(c):
    """the REAL Server.run (and the real JsonLogWriter) driven with the results the solver chose for the auction and the play of
    every board: deal / bidding_phase / playing_phase return those values, the network and the seat threads are inert fakes.
    The log must hold, per board, the contract, declarer and tricks that were returned and +-calc_score by declarer's side."""
    import json
    import os
    import pathlib
    import tempfile
    from bridge_env import Bid, Contract, Hands, Pair, Player, Vul
    from bridge_env.data_handler.abstract_classes import BoardSetting
    from bridge_env.network_bridge import server as sm
    from bridge_env.playing_phase import PlayingHistory
    from bridge_env.score import calc_score
    specs = c['boards']
    random_state = __import__('random').getstate()
    __import__('random').seed(7)
    deals = [Hands.generate_random_hands() for _ in specs]
    __import__('random').setstate(random_state)
    if c.get('shared'):
        deals = [deals[0]] * len(specs)
    boards = [BoardSetting(hands=deals[i], dealer=Player(sp['dealer']), vul=Vul(sp['vul']), board_id=f'r{i}') for i, sp in enumerate(specs)]
    originals = [{p: set(d[p]) for p in Player} for d in deals]
    seats = iter([Player.N, Player.E, Player.S, Player.W])

    class FakeThread:
        PROTOCOL_VERSION = sm.PlayerThread.PROTOCOL_VERSION

        def __init__(self, *a, **k):
            self.team_names, self.event_thread = k.get('team_names'), k.get('event_thread')

        def start(self):
            p = next(seats)
            self.team_names[p] = 'NS' if p.pair is Pair.NS else 'EW'
            self.event_thread.set()

        def is_alive(self):
            return True

        def join(self, timeout=None):
            pass

    class FakeBarrier:
        def __init__(self, *a, **k):
            pass

        def wait(self, timeout=None):
            return 0

    class FakeSock:
        def bind(self, a): pass
        def listen(self, n=0): pass
        def accept(self): return object(), None
        def close(self): pass
    state = dict(board=0)
    contracts = []

    def deal(self, *a, **k):
        state['board'] += 1

    def bidding(self, dealer, vul):
        sp = specs[state['board'] - 1]
        if sp['passed_out']:
            con = Contract(None, vul=vul)
        else:
            con = Contract(Bid(sp['bid']), x=sp['x'] or sp['xx'], xx=sp['xx'], vul=vul, declarer=Player(sp['declarer']))
        contracts.append(con)
        return con, [Bid.Pass] * 4

    def playing(self, contract, cards):
        for p in Player:
            cards[p].clear()            # the play consumes the hands it is given
        return PlayingHistory(contract), specs[state['board'] - 1]['tricks']
    path = os.path.join(tempfile.mkdtemp(prefix='verif_asm_'), 'out.json')
    saved = {n: getattr(sm, n) for n in ('PlayerThread', 'Barrier')}
    saved_m = {n: getattr(sm.Server, n) for n in ('deal', 'bidding_phase', 'playing_phase')}
    saved_sleep = sm.time.sleep
    bad = []
    try:
        sm.PlayerThread, sm.Barrier = FakeThread, FakeBarrier
        sm.Server.deal, sm.Server.bidding_phase, sm.Server.playing_phase = deal, bidding, playing
        sm.time.sleep = lambda s: None
        srv = sm.Server('localhost', 2000, pathlib.Path(path), boards)
        try:
            srv._socket.close()
        except Exception:
            pass
        srv._socket = FakeSock()
        try:
            srv.run()
        except Exception as e:
            if c.get('outcome') != 'raise':
                raise            # the solver's path did not raise: a raise here is a gap of the fakes, not a finding (exit 3)
            bad.append(f'Server.run raised {e!r}')
    finally:
        sm.PlayerThread, sm.Barrier = saved['PlayerThread'], saved['Barrier']
        for n, v in saved_m.items():
            setattr(sm.Server, n, v)
        sm.time.sleep = saved_sleep
    try:
        logs = json.load(open(path))['logs']
    except Exception as e:
        return True, f'the log is not a JSON document: {e!r}; ' + '; '.join(bad)
    finally:
        try:
            os.remove(path)
            os.rmdir(os.path.dirname(path))
        except OSError:
            pass
    if len(logs) != len(specs):
        bad.append(f'{len(logs)} records for {len(specs)} boards')
    for i, (lg, sp, con) in enumerate(zip(logs, specs, contracts)):
        if lg.get('board_id') != f'r{i}' or lg.get('dealer') != str(Player(sp['dealer'])):
            bad.append(f'board {i}: id/dealer {lg.get("board_id")!r}/{lg.get("dealer")!r}')
        from bridge_env.data_handler.json_handler.writer import convert_deal
        want_deal = convert_deal(Hands(*[set(originals[i][p]) for p in (Player.N, Player.E, Player.S, Player.W)]))
        if lg.get('deal') != want_deal:
            bad.append(f'board {i}: the deal written is not the complete original deal')
        if sp['passed_out']:
            if lg.get('play_history') is not None or lg.get('taken_trick') is not None or lg.get('scores') != {'NS': 0, 'EW': 0} \
                    or lg.get('declarer') is not None:
                bad.append(f'board {i} (passed out): play {lg.get("play_history")}, tricks {lg.get("taken_trick")}, scores {lg.get("scores")}')
            continue
        s = calc_score(con, sp['tricks'])
        side = 'NS' if Player(sp['declarer']).pair is Pair.NS else 'EW'
        want = {side: s, ('EW' if side == 'NS' else 'NS'): -s}
        if lg.get('scores') != want:
            bad.append(f'board {i}: {con.str_info()} with {sp["tricks"]} tricks: scores {lg.get("scores")}, the rules give {want}')
        if lg.get('taken_trick') != sp['tricks'] or lg.get('declarer') != str(Player(sp['declarer'])) or lg.get('contract') != str(con):
            bad.append(f'board {i}: contract/declarer/tricks written {lg.get("contract")!r}/{lg.get("declarer")!r}/{lg.get("taken_trick")!r}')
    return bool(bad), 'real Server.run driven with the chosen board results: ' + '; '.join(bad[:3])


def replay(c):
    k = c.get('kind')
    if k == 'thread_playing':
        return replay_thread_playing(c)
    if k == 'thread_bidding':
        return replay_thread_bidding(c)
    if k == 'bidding_iteration':
        return replay_bidding(c)
    if k == 'playing_iteration':
        return replay_playing(c)
    if k == 'deal':
        return replay_deal(c)
    if k == 'transcript':
        from harness import transcripts
        bad, r = transcripts.check_session(c['session'], c.get('seed', 0))
        mine = [m for t, m in bad if any(p in t for p in c.get('props', ['C08', 'C10']))]
        return bool(mine), f'session {c["session"]}: ' + '; '.join(mine[:3])
    if k == 'assembly':
        if c.get('boards'):
            hit, msg = replay_assembly_direct(c)
            if hit:
                return hit, msg
        # the assembly of the log is replayed on the real server with bundled clients: sessions with a passed-out board after a
        # played one, several boards, doubled contracts
        from harness import transcripts
        out = []
        for name in (('S7',) if c.get('shared') else ('S2', 'S4')):
            bad, r = transcripts.check_session(name, 0)
            out += [f'{name}: {m}' for t, m in bad if any(p in t for p in c.get('props', ['C08']))]
        return bool(out), 'log of the real server against the seats\' own messages and the rules: ' + '; '.join(out[:3])
    return False, 'unknown kind'
