"""Replays a C12/C17(JSON) counterexample: real writer -> text -> real json -> published schema -> real parser."""
import io
import json
import os


def card_of(i):
    from bridge_env import Card, Suit
    return Card(i % 13 + 2, Suit(i // 13 + 1))


def build(rec, i):
    """writer arguments from a record description (None = a fixed filler record)"""
    from bridge_env import Bid, Contract, Hands, Pair, Player, Suit, TrickHistory, Vul
    from bridge_env.data_handler.pbn_handler.writer import Scoring
    from bridge_env.playing_phase import PlayingHistory
    if rec is None:
        rec = dict(dealer=1 + i % 4, vul=1 + (i + 1) % 4, passed_out=True, bid=None, status=0, declarer=0,
                   names={'west': 'w', 'north': 'n', 'east': 'e', 'south': 's', 'board_id': f'f{i}'},
                   deal={'1': [0, 1], '2': [13], '3': [], '4': [51]}, auction=[36, 36, 36, 36], tricks=None, play=None,
                   scores=[0, 0], dda=None)
    vul = Vul(rec['vul'])
    if rec['passed_out']:
        contract = Contract(None, vul=vul)
        play = None
    else:
        contract = Contract(Bid(rec['bid']), x=rec['status'] >= 1, xx=rec['status'] == 2, vul=vul, declarer=Player(rec['declarer']))
        play = PlayingHistory(contract)
        for k, (ld, cs) in enumerate(rec['play'] or []):
            play.record(k + 1, TrickHistory(Player(ld), tuple(card_of(c) for c in cs)))
    dda = None
    if rec['dda'] is not None:
        dda = {Player(p + 1): {Suit(s + 1): rec['dda'][p][s] for s in range(5)} for p in range(4)}
    n = rec['names']
    return dict(board_id=n['board_id'], west_player=n['west'], north_player=n['north'], east_player=n['east'], south_player=n['south'],
                dealer=Player(rec['dealer']), deal=Hands(*[{card_of(c) for c in rec['deal'][str(p)]} for p in range(1, 5)]),
                scoring=Scoring[rec.get('scoring', 'IMP')], bid_history=[Bid(b) for b in rec['auction']], contract=contract, play_history=play,
                taken_trick_num=rec['tricks'], scores={Pair.NS: rec['scores'][0], Pair.EW: rec['scores'][1]}, dda=dda)


def check_schema(doc, name):
    base = os.path.join(os.environ.get('VERIF_REPO', '/repo'), 'bridge_env', 'data_handler', 'json_handler')
    schema = json.load(open(os.path.join(base, name)))
    try:
        import jsonschema
        from jsonschema import RefResolver
        resolver = RefResolver(base_uri='file://' + base + '/', referrer=schema)
        errs = sorted(jsonschema.Draft7Validator(schema, resolver=resolver).iter_errors(doc), key=str)
        return [f'{list(e.absolute_path)}: {e.message}' for e in errs[:3]]
    except ImportError:
        return mini_validate(doc, schema, schema, lambda n: json.load(open(os.path.join(base, n))))


def mini_validate(v, schema, root, loader, path='$'):
    if '$ref' in schema:
        fname, _, frag = schema['$ref'].partition('#')
        doc = loader(fname) if fname else root
        node = doc
        for part in frag.strip('/').split('/'):
            if part:
                node = node[part]
        return mini_validate(v, node, doc, loader, path)
    T = {'string': str, 'integer': int, 'null': type(None), 'array': list, 'object': dict}
    bad = []
    if 'type' in schema:
        ts = schema['type'] if isinstance(schema['type'], list) else [schema['type']]
        if not any(isinstance(v, T[t]) and not (t == 'integer' and isinstance(v, bool)) for t in ts):
            return [f'{path}: {v!r} is not of type {schema["type"]}']
    if isinstance(v, dict):
        bad += [f'{path}: {k!r} is required' for k in schema.get('required', []) if k not in v]
        for k, sub in schema.get('properties', {}).items():
            if k in v:
                bad += mini_validate(v[k], sub, root, loader, f'{path}.{k}')
    if isinstance(v, list) and 'items' in schema:
        for i, x in enumerate(v):
            bad += mini_validate(x, schema['items'], root, loader, f'{path}[{i}]')
    return bad


def replay(c):
    from bridge_env import Bid, Card, Contract, Hands, Pair, Player, Suit, TrickHistory, Vul
    from bridge_env.data_handler.json_handler.parser import JsonParser
    from bridge_env.data_handler.json_handler.writer import JsonBoardSettingWriter, JsonLogWriter
    if c.get('kind') == 'settings':
        return replay_settings(c)
    m, si = c['m'], c['symbolic_record']
    recs = c.get('records') or [c['record'] if i == si else None for i in range(m)]
    args = [build(recs[i], i) for i in range(m)]
    buf = io.StringIO()
    bad = []
    try:
        w = JsonLogWriter(buf)
        w.open()
        for a in args:
            w.write(**a)
        w.close()
    except Exception as e:
        return True, f'writer raised {e!r}'
    text = buf.getvalue()
    try:
        doc = json.loads(text)
    except Exception as e:
        return True, f'written text is not JSON: {e!r}'
    if list(doc) != ['logs'] or len(doc['logs']) != m:
        bad.append('document is not {"logs": [m records]}')
    bad += ['schema: ' + x for x in check_schema(doc, 'log_format.schema.json')]
    try:
        logs = JsonParser().parse_board_logs(io.StringIO(text))
        sets = JsonParser().parse_board_settings(io.StringIO(text))
    except Exception as e:
        return True, f'parser raised {e!r}; ' + '; '.join(bad)
    if len(logs) != m or len(sets) != m:
        bad.append('number of records read back differs')
    for i, (a, log, bs) in enumerate(zip(args, logs, sets)):
        con = a['contract']
        want = dict(board_id=a['board_id'], dealer=a['dealer'], vul=con.vul, hands=a['deal'], bid_history=a['bid_history'],
                    declarer=con.declarer, taken_trick=a['taken_trick_num'], dda=a['dda'], score_type=a['scoring'].value, scores=a['scores'],
                    players={Player.N: a['north_player'], Player.E: a['east_player'], Player.S: a['south_player'], Player.W: a['west_player']},
                    play_history=None if a['play_history'] is None else list(a['play_history'].history))
        for k, v in want.items():
            got = getattr(log, k)
            if got != v or type(got) is not type(v):
                bad.append(f'record {i}: {k} read back as {got!r}, written {v!r}')
            elif isinstance(v, dict) and any(type(x) is not type(y) for x, y in zip(sorted(got, key=str), sorted(v, key=str))):
                bad.append(f'record {i}: {k} keys read back with other types: {list(got)}')
        if log.play_history:
            for th in log.play_history:
                if not isinstance(th.leader, Player) or not all(isinstance(x, Card) for x in th.cards) or not isinstance(th.cards, tuple):
                    bad.append(f'record {i}: trick {th} is not (Player, tuple of Card)')
        c2 = log.contract
        st = lambda q: 2 if q.xx else (1 if q.x else 0)
        if c2.is_passed_out() != con.is_passed_out() or (not con.is_passed_out() and (c2.final_bid is not con.final_bid or st(c2) != st(con)
                                                                                       or c2.declarer is not con.declarer)) or c2.vul is not con.vul:
            bad.append(f'record {i}: contract read back as {c2!r}, written {con!r}')
        if (bs.board_id, bs.dealer, bs.vul, bs.dda) != (a['board_id'], a['dealer'], con.vul, a['dda']) or bs.hands != a['deal']:
            bad.append(f'record {i}: as a board setting read back differently')
    return bool(bad), f'{m} records: ' + '; '.join(bad[:4])


def replay_settings(c):
    from bridge_env import Hands, Player, Suit, Vul
    from bridge_env.data_handler.json_handler.parser import JsonParser
    from bridge_env.data_handler.json_handler.writer import JsonBoardSettingWriter
    bad = []
    buf = io.StringIO()
    boards = []
    for i in range(c['m']):
        r = c['records'][i] if c.get('records') else (c['record'] if i == c['symbolic_record'] else dict(
            dealer=1 + i % 4, vul=1 + (i + 1) % 4, names={'board_id': f'f{i}'}, deal={'1': [0, 1], '2': [13], '3': [], '4': [51]}, dda=None))
        dda = None if r['dda'] is None else {Player(p + 1): {Suit(s + 1): r['dda'][p][s] for s in range(5)} for p in range(4)}
        boards.append(dict(board_id=r['names']['board_id'], dealer=Player(r['dealer']), vul=Vul(r['vul']), dda=dda,
                           deal=Hands(*[{card_of(x) for x in r['deal'][str(p)]} for p in range(1, 5)])))
    try:
        with JsonBoardSettingWriter(buf) as w:
            for b in boards:
                w.write(**b)
        text = buf.getvalue()
        doc = json.loads(text)
        bad += ['schema: ' + x for x in check_schema(doc, 'board_setting_format.schema.json')]
        back = JsonParser().parse_board_settings(io.StringIO(text))
    except Exception as e:
        return True, f'raised {e!r}'
    if len(back) != len(boards):
        bad.append('number of boards differs')
    for i, (b, bs) in enumerate(zip(boards, back)):
        if (bs.board_id, bs.dealer, bs.vul, bs.dda) != (b['board_id'], b['dealer'], b['vul'], b['dda']) or bs.hands != b['deal']:
            bad.append(f'board {i} read back as {bs}')
    return bool(bad), f'{c["m"]} board settings: ' + '; '.join(bad[:3])
