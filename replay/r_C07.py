def official(level, denom, dbl, red, vul, tricks):
    """independent table-style computation (loops, no closed forms)"""
    need = level + 6
    if tricks >= need:
        per = 20 if denom in (1, 2) else 30
        ts = per * level + (10 if denom == 5 else 0)
        ts *= 4 if red else 2 if dbl else 1
        s = ts + ((500 if vul else 300) if ts >= 100 else 50)
        if level == 6:
            s += 750 if vul else 500
        if level == 7:
            s += 1500 if vul else 1000
        s += 100 if red else 50 if dbl else 0
        for _ in range(tricks - need):
            s += (400 if vul else 200) if red else (200 if vul else 100) if dbl else per
        return s
    s = 0
    for k in range(1, need - tricks + 1):
        if not dbl and not red:
            s += 100 if vul else 50
        else:
            if vul:
                p = 200 if k == 1 else 300
            else:
                p = 100 if k == 1 else 200 if k in (2, 3) else 300
            s += p * (2 if red else 1)
    return -s


def replay(c):
    from bridge_env import Bid, Contract, Player, Vul
    from bridge_env.score import calc_score
    if c.get('kind') == 'sequence':
        c1, c2 = c['c1'], c['c2']
        try:
            calc_score(Contract(Bid(c1['bid']), x=c1['x'], xx=c1['xx'], vul=Vul(c1['vul']),
                                declarer=Player(c1['declarer'])), c1['tricks'])
        except Exception as e:
            return True, f'first call raised {e!r}'
        c = dict(c2, kind='contract')
    if c.get('kind') == 'passed_out':
        fb = None if c['final_bid'] is None else Bid.Pass
        decl = Player(c['declarer']) if c['declarer'] else None
        try:
            got = calc_score(Contract(fb, vul=Vul(c['vul']), declarer=decl), c['tricks'])
        except Exception as e:
            return True, f'passed-out contract raised {e!r}'
        return got != 0, f'passed out scores {got}'
    bid = Bid(c['bid'])
    con = Contract(bid, x=c['x'], xx=c['xx'], vul=Vul(c['vul']), declarer=Player(c['declarer']))
    red = c['xx']
    dbl = c['x'] and not c['xx']
    ns = c['declarer'] in (1, 3)
    v = c['vul'] == 4 or (c['vul'] == 2 and ns) or (c['vul'] == 3 and not ns)
    want = official((c['bid'] - 1) // 5 + 1, (c['bid'] - 1) % 5 + 1, dbl, red, v, c['tricks'])
    try:
        got = calc_score(con, c['tricks'])
    except Exception as e:
        return True, f'calc_score({con}, {c["tricks"]}) raised {e!r}'
    return got != want, f'calc_score({con} by {con.declarer} vul={con.vul}, {c["tricks"]} tricks) = {got}, duplicate table {want}'
