from r_play import replay  # noqa
