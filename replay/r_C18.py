"""Replays a C18 counterexample: real PbnWriter -> text -> real PbnParser."""
import datetime
import io


def card_of(i):
    from bridge_env import Card, Suit
    return Card(i % 13 + 2, Suit(i // 13 + 1))


def replay(c):
    import random
    from bridge_env import Bid, Contract, Hands, Player, Vul
    from bridge_env.data_handler.pbn_handler.parser import PbnParser
    from bridge_env.data_handler.pbn_handler.writer import PbnWriter, Scoring
    m, si, r = c['m'], c['symbolic_record'], c['record']
    rnd = random.Random(5)
    recs = []
    for i in range(m):
        pack = list(range(52))
        rnd.shuffle(pack)
        deal = Hands(*[{card_of(x) for x in pack[13 * j:13 * j + 13]} for j in range(4)])
        if i == si:
            t = r['texts']
            if r['passed_out']:
                contract, tricks = Contract(None, vul=Vul(r['vul'])), None
            else:
                # any contract whose text has the length of the counterexample's text
                bid = Bid.NT3 if len(r['contract_text'] or '') >= 3 else Bid.C3
                xx = len(r['contract_text'] or '') >= 5
                contract = Contract(bid, x=xx, xx=xx, vul=Vul(r['vul']), declarer=Player(r['declarer']))
                tricks = r['tricks']
            recs.append(dict(event=t['event'], site=t['site'], date=datetime.date(2024, 1, 2), board_num=r['board'], west_player=t['west_player'],
                             north_player=t['north_player'], east_player=t['east_player'], south_player=t['south_player'],
                             dealer=Player(r['dealer']), deal=deal, scoring=Scoring.IMP, contract=contract, taken_tricks=tricks))
        else:
            po = i % 2 == 1
            contract = Contract(None, vul=Vul(1 + (i + 2) % 4)) if po else Contract(Bid.NT3, vul=Vul(1 + (i + 2) % 4), declarer=Player.E)
            recs.append(dict(event=f'ev{i}', site=f'si{i}', date=datetime.date(2024, 1, 2), board_num=i + 1, west_player=f'we{i}',
                             north_player=f'no{i}', east_player=f'ea{i}', south_player=f'so{i}', dealer=Player(1 + i % 4), deal=deal,
                             scoring=Scoring.IMP, contract=contract, taken_tricks=None if po else 8))
    buf = io.StringIO()
    bad = []
    try:
        w = PbnWriter(buf)
        if c.get('header'):
            w.write_header()
        for a in recs:
            w.write_board_result(**a)
        text = buf.getvalue()
        if any(len(l) + 1 > 255 for l in text.split('\n')):
            bad.append('a written line exceeds 255 characters')
        games = PbnParser().parse_all(io.StringIO(text))
        sets = PbnParser().parse_board_settings(io.StringIO(text))
    except Exception as e:
        return True, f'raised {e!r}'
    if len(games) != m:
        bad.append(f'{len(games)} games read back for {m} board results')
    for i, (a, g) in enumerate(zip(recs, games)):
        con = a['contract']
        want = {'Event': a['event'], 'Site': a['site'], 'Date': '2024.01.02', 'Board': str(a['board_num']), 'West': a['west_player'],
                'North': a['north_player'], 'East': a['east_player'], 'South': a['south_player'], 'Dealer': str(a['dealer']),
                'Vulnerable': con.vul.pbn_format(), 'Deal': a['deal'].to_pbn(a['dealer']), 'Scoring': 'IMP',
                'Declarer': '' if con.is_passed_out() else str(con.declarer), 'Contract': 'Pass' if con.is_passed_out() else str(con),
                'Result': '' if con.is_passed_out() else str(a['taken_tricks'])}
        if g != want:
            diff = {k: (g.get(k), v) for k, v in want.items() if g.get(k) != v}
            extra = sorted(set(g) - set(want))
            bad.append(f'game {i}: tags read back differ (read, written): {diff} extra tags {extra}')
    if len(sets) == m:
        for i, (a, bs) in enumerate(zip(recs, sets)):
            if (bs.dealer, bs.vul, bs.board_id) != (a['dealer'], a['contract'].vul, str(a['board_num'])) or bs.hands != a['deal']:
                bad.append(f'board setting {i} not recovered')
    else:
        bad.append(f'{len(sets)} board settings for {m} results')
    return bool(bad), f'{m} results: ' + '; '.join(bad[:3])
