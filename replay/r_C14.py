"""Replays C14 counterexamples on the real Hands / JSON deal converters."""


def card_of(i):
    from bridge_env import Card, Suit
    return Card(i % 13 + 2, Suit(i // 13 + 1))


def replay(c):
    import random
    import numpy as np
    from bridge_env import Card, Hands, Player, Suit
    from bridge_env.data_handler.json_handler.parser import hands_parser
    from bridge_env.data_handler.json_handler.writer import convert_deal
    k = c['kind']
    bad = []
    if k == 'deal':
        sets = [{card_of(i) for i in c['deal'][str(p)]} for p in range(1, 5)]
        deal = Hands(*[set(s) for s in sets])
        which = c.get('which')
        try:
            if which in ('tuple', None):
                b = deal.to_binary()
                for p in Player:
                    want = tuple(1 if card_of(i) in sets[p.value - 1] else 0 for i in range(52))
                    if tuple(b[p]) != want:
                        bad.append(f'binary vector of {p} is not the indicator of its cards')
                if Hands.convert_binary(b) != Hands(*[set(s) for s in sets]):
                    bad.append('convert_binary(to_binary(deal)) != deal')
            if which in ('numpy', None):
                b = deal.to_np_binary()
                for p in Player:
                    want = [1 if card_of(i) in sets[p.value - 1] else 0 for i in range(52)]
                    if [int(x) for x in b[p]] != want:
                        bad.append(f'numpy vector of {p} is not the indicator of its cards')
                if Hands.convert_np_binary(b) != Hands(*[set(s) for s in sets]):
                    bad.append('convert_np_binary(to_np_binary(deal)) != deal')
            if which in ('json', None):
                j = convert_deal(deal)
                for key, s in zip('NESW', sets):
                    idx = ['CDHS'.index(x[0]) * 13 + '23456789TJQKA'.index(x[1]) for x in j[key]]
                    if idx != sorted(idx):
                        bad.append(f'JSON list of {key} is not ascending: {j[key]}')
                    if {card_of(i) for i in idx} != s:
                        bad.append(f'JSON list of {key} does not list exactly its cards')
                if hands_parser(j) != Hands(*[set(s) for s in sets]):
                    bad.append('hands_parser(convert_deal(deal)) != deal')
        except Exception as e:
            bad.append(f'raised {e!r}')
        return bool(bad), f'deal {c["deal"]}: ' + '; '.join(bad[:3])
    if k == 'pbn_hand':
        hand = {card_of(i) for i in c['cards']}
        try:
            t = Hands._convert_hand_to_pbn(set(hand))
            if hand:
                fields = []
                for s in (Suit.S, Suit.H, Suit.D, Suit.C):
                    rs = sorted((x.rank for x in hand if x.suit is s), reverse=True)
                    fields.append(''.join('23456789TJQKA'[r - 2] for r in rs))
                want = '.'.join(fields)
            else:
                want = '-'
            if t != want:
                bad.append(f'text {t!r} is not the canonical {want!r}')
            back = Hands._hand_parser(t)
            if back != hand:
                bad.append(f'{t!r} parses back to a different hand')
            again = Hands._hand_parser(t)
            if again is back:
                bad.append(f'two decodes of {t!r} return the SAME set object: playing a card from one deal removes it from the other')
        except Exception as e:
            bad.append(f'raised {e!r}')
        return bool(bad), f'hand {sorted(map(str, hand))}: ' + '; '.join(bad)
    if k == 'pbn_deal':
        rnd = random.Random(1)
        pack = list(range(52))
        rnd.shuffle(pack)
        sets = [({card_of(i) for i in pack[13 * j:13 * j + 13]} if c['present'][j] else set()) for j in range(4)]
        deal = Hands(*[set(s) for s in sets])
        try:
            if c.get('earlier_first'):
                deal.to_pbn(Player(c['earlier_first']))        # an earlier write from the same object
            line = deal.to_pbn(Player(c['first']))
            if not line.startswith(str(Player(c['first'])) + ':'):
                bad.append(f'line {line!r} does not start with the first seat')
            parts = line[2:].split(' ')
            order = [Player((c['first'] - 1 + j) % 4 + 1) for j in range(4)]
            for pl, part in zip(order, parts):
                if part != Hands._convert_hand_to_pbn(set(sets[pl.value - 1])):
                    bad.append(f'field of {pl} is not its hand')
            if Hands.convert_pbn(line) != Hands(*[set(s) for s in sets]):
                bad.append(f'convert_pbn(to_pbn(deal, {Player(c["first"])})) != deal')
        except Exception as e:
            bad.append(f'raised {e!r}')
        return bool(bad), f'first seat {c["first"]} present {c["present"]}: ' + '; '.join(bad)
    if k == 'dealer':
        perm = c['perm']
        orig = random.shuffle

        def fake(lst):
            cards = {int(x): x for x in lst}
            lst[:] = [cards[perm[k]] for k in range(len(lst))]
        random.shuffle = fake
        try:
            h = Hands.generate_random_hands()
        except Exception as e:
            return True, f'generate_random_hands raised {e!r}'
        finally:
            random.shuffle = orig
        hs = [h.north, h.east, h.south, h.west]
        if any(len(x) != 13 for x in hs):
            bad.append(f'hand sizes {[len(x) for x in hs]}')
        if len(set().union(*hs)) != 52:
            bad.append('hands do not cover the pack')
        return bool(bad), 'dealer with a given permutation: ' + '; '.join(bad)
    return False, 'unknown kind'
