"""Replay of an admission counterexample: the REAL Client._connect talks to the REAL PlayerThread._connect over an
in-memory socket pair; the seat table is pre-filled as in the counterexample."""
import os
import sys
import threading

sys.path.insert(0, os.path.dirname(os.path.dirname(os.path.abspath(__file__))))


def replay(c):
    if c.get('kind') == 'session':
        return replay_session(c)
    from engine import netrec
    from bridge_env import Player
    from bridge_env.network_bridge import client as client_mod
    from bridge_env.network_bridge import server as server_mod
    from bridge_env.network_bridge import socket_interface as si
    ctl = netrec.Control()
    net = netrec.FakeNet(ctl)
    lst = netrec.FakeSocket(net)
    lst.bind(('fake', 2000))
    lst.listen(4)
    seat = Player(c['seat'])
    table = {Player(int(p)): v for p, v in c['table'].items()}
    before = dict(table)
    res = {}
    class Ev(threading.Event):
        seen = []

        def set(self_):
            Ev.seen.append(dict(table))
            threading.Event.set(self_)
    ev = Ev()

    class Gate:
        def wait(self_, timeout=None):
            for p in Player:
                if table[p] is None:
                    mate = table[p.partner]
                    table[p] = mate if mate is not None else ('filler NS' if p.value % 2 else 'filler EW')

    def server_side():
        ctl.register('pt')
        conn, _ = lst.accept()
        th = server_mod.PlayerThread(connection=conn, event_sync=Gate(), event_thread=ev, sent_message_queues={},
                                     received_message_queues={}, players_event={}, team_names=table)
        res['conn'] = conn
        try:
            res['server'] = th._connect()
        except BaseException as e:
            res['server_exc'] = repr(e)

    def client_side():
        ctl.register('cl')
        fake = type(sys)('fake_socket')
        fake.socket, fake.AF_INET, fake.SOCK_STREAM = net.socket, 2, 1
        old = si.socket
        si.socket = fake
        try:
            cl = client_mod.Client(player=seat, team_name=c['team'], bidding_system=None, playing_system=None, ip_address='fake', port=2000)
            cl.PROTOCOL_VERSION = c['version']
            with cl:
                res['client_obj'] = cl
                cl._connect()
                res['client'] = 'ok'
        except BaseException as e:
            res['client'] = 'exception ' + repr(e)
        finally:
            si.socket = old
    ts = [threading.Thread(target=server_side, daemon=True), threading.Thread(target=client_side, daemon=True)]
    for t in ts:
        t.start()
    for t in ts:
        t.join(10)
    ctl.abort()
    bad = []
    mate = before[seat.partner]
    refuse = c['version'] != 18 or before[seat] is not None or (mate is not None and mate != c['team'])
    if 'server_exc' in res:
        bad.append(f'seat thread crashed: {res["server_exc"]}')
    elif 'server' not in res:
        bad.append('admission dialogue did not finish')
    else:
        if res['server'] is False:
            if not refuse:
                bad.append('an acceptable request was refused')
            sent = res['conn'].sent_log
            if len(sent) != 1 or not sent[0].startswith('ERROR'):
                bad.append(f'refusal not answered with exactly one ERROR line: {sent}')
            if not res['conn'].closed:
                bad.append('refused connection not closed')
            if not ev.is_set():
                bad.append('admission event not set: the server would never accept again')
            if table != before:
                bad.append(f'seat table disturbed by a refused request: {before} -> {table}')
        else:
            if refuse:
                bad.append('a request that must be refused was accepted')
            if table[seat] != c['team'] or any(before[p] is not None and table[p] != before[p] for p in Player):
                bad.append(f'seat table after acceptance: {table}')
            if res.get('client') != 'ok':
                bad.append(f'client did not accept the dialogue: {res.get("client")}')
            else:
                opp = res['client_obj'].opponent_team_name
                if opp != table[seat.left]:
                    bad.append(f'client recorded opponents {opp!r}, table says {table[seat.left]!r}')
            if not ev.is_set():
                bad.append('admission event not set')
            elif Ev.seen[0][seat] != c['team']:
                bad.append('admission event set before the seat was entered in the table (the main thread may count seats too early)')
    return bool(bad), f'request seat={seat} version={c["version"]} team={c["team"]!r} table={c["table"]}: ' + '; '.join(bad)


def replay_session(c):
    from harness import C20sessions
    return C20sessions.replay(c)
