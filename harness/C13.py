"""C13 — an aborted session still leaves a well-formed log of the completed boards.

Server.run is executed symbolically from its first line (environment stubbed, see harness/serverrun.py) over n symbolic
boards; Server.bidding_phase / Server.playing_phase are replaced by 'return an arbitrary result OR raise', the abort
point (board k in 1..n, auction or play) being a symbolic choice and the exception kind one of every class those methods
can end with (Exception: illegal / malformed call or play; ValueError: card not held, rank text; KeyError: suit text;
IndexError: one-letter card; AssertionError; ConnectionError; KeyboardInterrupt: operator).
After the exception has left run(), the captured output file must be closed, its text must be ONE JSON document (the
framing is parsed by the real json module) and it must hold exactly the records of boards 1..k-1, each whole.
The real JsonLogWriter and the real `with` / try-finally structure of run() are interpreted.
"""
import z3

from engine import common, hx, sstr, symx
from engine.symx import Opaque, SBool, SEnum, SInt, SObj, SStr, Sym, zenum, zint
from harness import jsonio, serverrun


def sym_boards(eng, n):
    from bridge_env import Hands, Player, Vul
    from bridge_env.data_handler.abstract_classes import BoardSetting
    out = []
    for i in range(n):
        d, v = z3.Int(f'b{i}_dealer'), z3.Int(f'b{i}_vul')
        eng.assume(z3.And(1 <= d, d <= 4, 1 <= v, v <= 4))
        from engine import cards as cardmod
        hands = SObj(Hands, {s: cardmod.cardset_from_cards(eng, [cardmod.CARDS[(13 * j + i) % 52]])
                             for j, s in enumerate(('north', 'east', 'south', 'west'))})
        bid = [z3.Int(f'b{i}_id{j}') for j in range(2)]
        for c in bid:
            eng.assume(z3.And(c >= 0, c <= 0x10FFFF))
        out.append(BoardSetting(hands=hands, dealer=SEnum(Player, d), vul=SEnum(Vul, v), board_id=SStr(bid), dda=None))
    return out


def case_abort(n, kind):
    from bridge_env import Bid, Contract, Player, Vul
    from bridge_env.network_bridge import server as server_mod
    from bridge_env.playing_phase import PlayingHistory
    Server = server_mod.Server

    def path(eng):
        eng.summarize.add(Player.__str__)
        boards = sym_boards(eng, n)
        srv, env = serverrun.make_server(eng, boards)
        abort_board, abort_in_play = z3.Int('abort_board'), z3.Bool('abort_in_play')
        eng.assume(z3.And(1 <= abort_board, abort_board <= n))
        state = dict(board=0, aborted=None)
        import builtins
        # the text is what the real phases raise with: it quotes the offending message (double quotes, a backslash)
        MSG = 'Parse exception. Content "Nord \\ passes" does not match the pattern.'
        exc = lambda: getattr(builtins, kind)(MSG)

        def deal(e, a, k):
            state['board'] += 1

        def bidding(e, a, k):
            b = state['board']
            if e.decide(z3.And(abort_board == b, z3.Not(abort_in_play))):
                state['aborted'] = (b, 'auction')
                raise symx.RaiseEx(exc())
            vul = a[2] if len(a) > 2 else k['vul']
            po = e.decide(z3.Bool(f'board{b}_passed_out'))
            if po:
                c = SObj(Contract, dict(final_bid=None, x=False, xx=False, vul=vul, declarer=None))
            else:
                bid, decl = z3.Int(f'board{b}_bid'), z3.Int(f'board{b}_declarer')
                e.assume(z3.And(1 <= bid, bid <= 35, 1 <= decl, decl <= 4))
                c = SObj(Contract, dict(final_bid=SEnum(Bid, bid), x=False, xx=False, vul=vul, declarer=SEnum(Player, decl)))
            return c, [Bid.Pass, Bid.Pass, Bid.Pass, Bid.Pass]

        def playing(e, a, k):
            b = state['board']
            if e.decide(z3.And(abort_board == b, abort_in_play)):
                state['aborted'] = (b, 'play')
                raise symx.RaiseEx(exc())
            t = z3.Int(f'board{b}_tricks')
            e.assume(z3.And(0 <= t, t <= 13))
            return SObj(PlayingHistory, {'_history': [], '_contract': a[1]}), SInt(t)
        eng.stubs[Server.deal] = deal
        eng.stubs[Server.bidding_phase] = bidding
        eng.stubs[Server.playing_phase] = playing
        eng.stubs[server_mod.calc_score] = lambda e, a, k: SInt(e.fresh('score'))
        from harness import C12
        C12.install_codecs(eng)

        def cex(m):
            return {'kind': 'abort', 'n': n, 'exception': kind, 'message': MSG, 'abort_board': hx.mval(m, abort_board),
                    'abort_in_play': hx.mval(m, abort_in_play), 'aborted': state['aborted'],
                    'passed_out': [bool(hx.mval(m, z3.Bool(f'board{b}_passed_out'))) for b in range(1, n + 1)]}
        try:
            eng.call_function(Server.run, [srv], {})
            raised = None
        except symx.RaiseEx as e:
            raised = e.exc
        chk = []
        if state['aborted'] is None:
            # the chosen abort point was never reached (play of a passed-out board): the session completes
            chk.append(('a session that is not aborted returns normally', raised is None))
            expect = n
            outcome = 'completed'
        else:
            chk.append(('the offending action stops the session with its exception', raised is not None and type(raised).__name__ == kind))
            expect = state['aborted'][0] - 1
            outcome = f'aborted in the {state["aborted"][1]}'
        files = env['files']
        chk.append(('one output file was opened', len(files) == 1))
        if len(files) == 1:
            f = files[0]
            chk.append(('the output file is closed', f.attrs['closed']))
            try:
                doc = jsonio.load_chunks(eng, f.attrs['chunks'])
                ok = isinstance(doc, dict) and isinstance(doc.get('logs'), list)      # further top-level members are not excluded by the property
                chk.append(('the file is one complete JSON document {"logs": [...]}', ok))
                if ok:
                    chk.append((f'it holds exactly the boards finished before the abort ({expect})', len(doc['logs']) == expect))
                    same = []
                    for i, rec in enumerate(doc['logs'][:expect]):
                        e = sstr.eq(rec.get('board_id'), boards[i].board_id) if isinstance(rec, dict) and 'board_id' in rec else False
                        same.append(e if not isinstance(e, bool) else z3.BoolVal(e))
                        load = jsonio.schema_loader(common.REPO)
                        root = load('log_format.schema.json')
                        viol = jsonio.validate({'logs': [rec]}, root, root, load)
                        if viol:
                            same.append(z3.BoolVal(False))
                    chk.append(('each of them whole, in order', z3.And(same) if same else True))
            except symx.RaiseEx as e:
                chk.append((f'the file is one complete JSON document ({e.exc})', False))
        return dict(outcome=outcome, cex=cex, checks=chk)
    return hx.explore_case(path, dict(max_paths=20000))


def cases(tier):
    ns = (1, 2) if tier != 'thorough' else (1, 2, 3)
    return [(case_abort, f'{n} boards, abort by {k}', dict(n=n, kind=k)) for n in ns for k in KINDS]


# every exception class the auction / play of the table manager can end with: Exception (illegal call, unparseable
# message), ValueError (card not held, rank text), KeyError (suit text), IndexError (one-letter card), AssertionError,
# ConnectionError (an OSError: peer gone), KeyboardInterrupt (operator)
KINDS = ('Exception', 'KeyboardInterrupt', 'ValueError', 'KeyError', 'IndexError', 'AssertionError', 'ConnectionError')


META = dict(
    level='model_checking',
    bounds=lambda tier: {'boards': '1..2 (quick) / 1..3 (thorough) symbolic boards (dealer, vulnerability, id); every board passed out or played (symbolic contract, tricks)',
                         'abort point': 'symbolic: board k in 1..n, in the auction or in the play; exception kinds Exception, ValueError, KeyError, IndexError, AssertionError, ConnectionError (OSError) and KeyboardInterrupt',
                         'outside': 'the position inside the auction/play (call j, card j) is not visible to run(): the methods raise before returning, whatever j'},
    stubs=['see harness/serverrun.py: sockets, PlayerThread, Event/Barrier/Queue, open, json.dumps, time.sleep; Server.deal no-op; '
           'Server.bidding_phase / playing_phase: arbitrary result or raise; calc_score: uninterpreted integer'],
    assumptions=['an illegal or malformed call/play and an unheld card surface as an exception raised by Server.bidding_phase / Server.playing_phase (they raise; checked by reading - the loop bodies do not touch the writer)',
                 'json.loads(json.dumps(d)) == d'],
    rule='feasible paths of Server.run over symbolic boards and a symbolic abort point',
    explanation='Server.run interpreted from source with its real with/try structure and the real JsonLogWriter',
    required_outcomes=['aborted in the auction', 'aborted in the play', 'completed'],
)


def validate(tier):
    """translator validation: the interpreter in concrete mode against CPython on the functions this check encodes"""
    from engine import validate as v
    return v.run(['converters'], tier)
