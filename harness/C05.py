"""C05 — only the seat on turn can play, only a card it holds; cards are conserved.

See harness/play.py: H0 constructor, H1 one play from an arbitrary invariant state (any trick, 0..3 cards on the
table), has_done lemma, H2 BMC of the first tricks from the real constructor with a symbolic deal.
"""
from harness import play

PROPS = {'C05'}


def cases(tier):
    cs = [(play.case_init, 'H0 constructor', dict(props=PROPS))]
    for t in range(4):
        for who in ('turn', 'other'):
            cs.append((play.case_step, f'H1 play with {t} cards on the table, seat {"on" if who == "turn" else "not on"} turn',
                       dict(props=PROPS, t=t, who=who)))
    for who in ('turn', 'other'):
        cs.append((play.case_step, f'H1 play is over (all 52 cards played), seat {"on" if who == "turn" else "not on"} turn',
                   dict(props=PROPS, t=0, who=who, over=True)))
    from harness import C11
    cs += C11.observer_cases(PROPS, tier)
    n = 6 if tier == 'thorough' else 4
    for d in range(1, 5):
        cs.append((play.case_bmc, f'H2 BMC first {n} plays, declarer {d}', dict(props=PROPS, n=n, declarer=d)))
    for when in ('before', 'after'):
        cs.append((play.case_two_boards, f'H3 a second board constructed {when} the lead to a first one is a fresh board', dict(props=PROPS, when=when)))
    for d in ((1, 2, 3, 4) if tier == 'thorough' else ((2,) if 'C04' in PROPS else (3,))):
        cs.append((play.case_clone, f'H3c a deep copy of a board that has been led to is a board of its own, declarer {d}', dict(props=PROPS, declarer=d)))
    return cs


META = dict(
    level='model_checking',
    bounds=lambda tier: {'H1': 'any trick 1..13, 0..3 cards on the table, and the state after the 52nd card (every hand empty), any contract (35 bids x 4 declarers), any disjoint hands (52 Booleans per set), any card and seat offered',
                         'H2': f'first {6 if tier == "thorough" else 4} plays from the real constructor, symbolic deal, per declarer',
                         'replay': 'counterexamples to induction are searched at trick 1 first and turned into (deal, plays); deeper-only ones are reported inconclusive'},
    stubs=['logger calls skipped'],
    assumptions=play.COMMON_ASSUMPTIONS,
    rule='feasible paths of play_card_by_player from a symbolic state; distinct = different path conditions',
    explanation='inductive step of the real play engine over bit-set hands + BMC of the first tricks',
    required_outcomes=['constructed', ('refused', 'H1 not applicable'), ('observer refused', 'H1 not applicable'), ('both accepted', 'H1 not applicable'), ('card 1 of a trick', 'H1 not applicable'), ('card 4 of a trick', 'H1 not applicable'), 'ran'],
)


def validate(tier):
    """translator validation: the interpreter in concrete mode against CPython on the functions this check encodes"""
    from engine import validate as v
    return v.run(['plays'], tier)
