"""C06 — the playable-card set is exactly the follow-suit rule.

available_cards on an arbitrary subset of the pack (52 Booleans) and an arbitrary led card; the state-dependent
wrappers (full game, observer's own hand, observer's dummy hand) from an arbitrary invariant state with 0..3 cards
on the table; the bundled example player with random.choice replaced by 'an arbitrary element'.
"""
from harness import play

PROPS = {'C06'}


def cases(tier):
    cs = [(play.case_available, 'available_cards, a card was led', dict(props=PROPS, led=True)),
          (play.case_available, 'available_cards, leading', dict(props=PROPS, led=False))]
    for t in range(4):
        for which in ('full', 'own', 'dummy', 'random'):
            cs.append((play.case_available_state, f'{which}: board in progress with {t} cards on the table',
                       dict(props=PROPS, t=t, which=which)))
    for seat in range(1, 5):
        cs.append((play.case_available_sequence, f'observer in seat {seat}: query, play, query again (first trick, real constructor)',
                   dict(props=PROPS, obs_seat=seat, n=3)))
    for when in ('before', 'after'):
        cs.append((play.case_two_boards, f'H3 a second board constructed {when} the lead to a first one is a fresh board', dict(props=PROPS, when=when)))
    return cs


META = dict(
    level='model_checking',
    bounds={'hands': 'every subset of the 52 cards (sizes 0..52, so 1..13 included), every led card or none',
            'states': 'every invariant state of a board in progress: any trick, 0..3 cards on the table, any seat'},
    stubs=['random.choice(seq) returns an arbitrary element of seq (IndexError when empty)', 'logger calls skipped'],
    assumptions=play.COMMON_ASSUMPTIONS,
    rule='feasible paths of available_cards and its wrappers on symbolic sets',
    explanation='the set comprehension of the real source is evaluated on 52 symbolic membership bits; result compared bit by bit with the follow-suit rule',
    required_outcomes=['query-play-query sequence', 'led', 'leading', ('example player chose', 'H1 not applicable'), ('full hand, 2 on table', 'H1 not applicable'), ('own hand, 1 on table', 'H1 not applicable'), ('dummy hand, 3 on table', 'H1 not applicable')],
)


def validate(tier):
    """translator validation: the interpreter in concrete mode against CPython on the functions this check encodes"""
    from engine import validate as v
    return v.run(['plays'], tier)
