"""Session definitions shared by the schedule-level checks (C09, C20, C10, C08, C11c): boards, the four bundled
clients, arrival orders.  Everything here is deterministic given the seed."""
import contextlib
import io
import random

from engine import netrec


def mkboards(n, seed=0):
    from bridge_env import Hands, Player, Vul
    from bridge_env.data_handler.abstract_classes import BoardSetting
    rnd = random.Random(seed)
    out = []
    state = random.getstate()
    for i in range(n):
        random.seed(seed * 1000 + i)
        out.append(BoardSetting(hands=Hands.generate_random_hands(), dealer=Player(rnd.randint(1, 4)),
                                vul=Vul(rnd.randint(1, 4)), board_id=f'board-{seed}-{i}'))
    random.setstate(state)
    return out


def bundled_clients(policy, order='NESW', scripts=None, seed=0):
    """policy: 'pass' (AlwaysPass) | 'weak' (WeakBid) | 'script' (ScriptedBid per seat); playing = RandomPlay with a private generator"""
    from bridge_env import Player
    from bridge_env.network_bridge.bidding_system import AlwaysPass, WeakBid
    out = []
    for ch in order:
        p = Player[ch]
        if policy == 'pass':
            b = AlwaysPass()
        elif policy == 'weak':
            b = WeakBid()
        else:
            b = netrec.ScriptedBid((scripts or {}).get(ch, []))
        out.append(dict(seat=p, team='Team NS' if p.value % 2 else 'Team EW', bidding=b,
                        playing=netrec.SeededRandomPlay(seed * 10 + p.value)))
    return out


# name -> (number of boards, per-board policy description)
def session(name, seed=0):
    """returns (boards, clients-factory) ; clients must be rebuilt for every run (policies carry state)"""
    if name == 'S1':      # two passed-out boards
        return mkboards(2, seed), lambda: bundled_clients('pass', seed=seed)
    if name == 'S2':      # passed-out + played: North opens 1C on board 2 only
        sc = {'N': [[], [1]], 'E': [[], []], 'S': [[], []], 'W': [[], []]}
        return mkboards(2, seed), lambda: bundled_clients('script', scripts=sc, seed=seed)
    if name == 'S3':      # two played boards (WeakBid: the first seat to call opens 1C)
        return mkboards(2, seed), lambda: bundled_clients('weak', seed=seed)
    if name == 'S4':      # three boards: played, passed out, contested auction with double and redouble
        # board 3, whoever deals: North 1S, East doubles, North redoubles (1SXX by North)
        sc = {'N': [[1], [], [4, 38]], 'E': [[], [], [37]], 'S': [[], [], []], 'W': [[], [], []]}
        return mkboards(3, seed), lambda: bundled_clients('script', scripts=sc, seed=seed)
    if name == 'S5':      # one board, arrival order W S E N
        return mkboards(1, seed), lambda: bundled_clients('weak', order='WSEN', seed=seed)
    if name == 'S6':      # three played boards, arrival order E N W S
        return mkboards(3, seed + 1), lambda: bundled_clients('weak', order='ENWS', seed=seed)
    if name == 'S7':      # two boards configured with ONE Hands object (the same deal replayed): played, then passed out
        bs = mkboards(2, seed)
        bs[1] = type(bs[1])(hands=bs[0].hands, dealer=bs[1].dealer, vul=bs[1].vul, board_id=bs[1].board_id)
        sc = {'N': [[1], []], 'E': [[], []], 'S': [[], []], 'W': [[], []]}
        return bs, lambda: bundled_clients('script', scripts=sc, seed=seed)
    if name == 'S8':      # both sides name the same strain, the side that named it second declares: 1NT (2NT) all pass
        sc = {'N': [[5]], 'E': [[10]], 'S': [[]], 'W': [[]]}
        bs = mkboards(1, seed + 2)
        bs[0] = type(bs[0])(hands=bs[0].hands, dealer=type(bs[0].dealer)(1), vul=bs[0].vul, board_id=bs[0].board_id)
        return bs, lambda: bundled_clients('script', scripts=sc, seed=seed)
    if name == 'S9':      # five boards: played, passed out, played (East opens), passed out, played
        sc = {'N': [[1], [], [], [], [2]], 'E': [[], [], [3], [], []], 'S': [[], [], [], [], []], 'W': [[], [], [], [], [6]]}
        return mkboards(5, seed + 3), lambda: bundled_clients('script', scripts=sc, seed=seed)
    if name in ('A1', 'A2'):
        # admission: invalid requests interleaved with the four bundled clients (arrival order is the list order)
        def mk():
            ok = {c['seat'].name: c for c in bundled_clients('pass' if name == 'A1' else 'weak', seed=seed)}
            if name == 'A1':
                return [ok['N'], raw_client('Team EW', 'East', 17), ok['E'], raw_client('Team NS', 'North', 18),
                        raw_client('Intruders', 'South', 18), ok['S'], raw_client('Team EW', 'West', 180), ok['W']]
            return [raw_client('x', 'West', 1), ok['W'], ok['S'], raw_client('Team EW', 'West', 18, case='upper'), ok['E'],
                    raw_client('Other', 'North', 18), raw_client('Team EW', 'East', 18), ok['N']]
        return mkboards(1, seed), mk
    raise KeyError(name)


def raw_client(team, seat_name, version, case=None):
    """a well-formed connection request that is not one of the four bundled clients; reads until the server closes"""
    def run(net, port, release):
        s = net.socket()
        s.connect(('fake', port))
        line = f'Connecting "{team}" as {seat_name} using protocol version {version}'
        if case == 'upper':
            line = line.upper().replace(team.upper(), team)
        s.sendall((line + '\r\n').encode())
        got = b''
        while True:
            c = s.recv(1)
            if c == b'':
                break
            got += c
            if got.endswith(b'\r\n') and not got.startswith(b'ERROR'):
                break          # admitted by mistake: stop here (do not continue the dialogue)
        return got.decode()
    return dict(raw=run, request=dict(team=team, seat=seat_name, version=version))


def record(name, seed=0, perturb=None, mode='record', schedule=None, idle_s=4.0):
    boards, mk = session(name, seed)
    with contextlib.redirect_stdout(io.StringIO()):
        return netrec.Session(boards, mk(), mode=mode, schedule=schedule, perturb=perturb, idle_s=idle_s).run()
