"""C12 — JSON game logs are schema-valid and read back exactly as written.

Encoded from source: JsonWriter.open/close/_write_content/__enter__/__exit__, JsonLogWriter.write, convert_deal,
JsonParser.parse_board_logs/parse_board_settings, convert_board_log, convert_board_setting, hands_parser,
Player/Vul/Pair/Suit name conversions.  The published schemas are read from the repository at run time.

A list of m records is written by the real writer into a capturing file (json.dumps = opaque token carrying the
normalised data; the framing text around the tokens is parsed by the real json module), validated against the
schema, and read back by the real parser; every field of every BoardLog is compared with what was written,
including its TYPE (Player, Pair, Bid, Card value objects).  One record of the list is fully symbolic (seats,
vulnerability, contract incl. passed out, deal as four 52-bit sets, auction, tricks, scores, names and ids with
unconstrained code points, optional double-dummy table); the others are fixed - every position takes its turn.

Assume/guarantee: the text codecs of calls, cards and contracts (str / str_to_*) are replaced by opaque tokens; their
round trip over the complete domains is what C15 decides.
"""
import z3

from engine import cards as cardmod
from engine import common, hx, sstr, symx
from engine.symx import CardSet, GuardedList, Opaque, SBool, SEnum, SInt, SObj, SStr, Sym, zbool, zenum, zint
from harness import jsonio

SEATS = {1: 'north', 2: 'east', 3: 'south', 4: 'west'}


def install_codecs(eng):
    from bridge_env import Bid, Card, Contract

    def enc(kind):
        def f(e, args, kw):
            return Opaque('str:' + kind, args[0])
        return f

    def dec(kind, real):
        def f(e, args, kw):
            tok = args[-1]
            if isinstance(tok, Opaque) and tok.kind == 'str:' + kind:
                return tok.payload
            if isinstance(tok, str):
                return e.native(real, [tok], {})
            raise symx.RaiseEx(ValueError(f'not a {kind} text'))
        return f
    real_bid, real_card = Bid.str_to_bid, Card.str_to_card
    orig_bid_str, orig_card_str = Bid.__str__, Card.__str__

    def bid_str(e, args, kw):
        return Opaque('str:bid', args[0]) if isinstance(args[0], Sym) else orig_bid_str(args[0])

    def card_str(e, args, kw):
        return Opaque('str:card', args[0]) if isinstance(args[0], Sym) else orig_card_str(args[0])
    eng.stubs[Bid.__str__] = bid_str
    eng.stubs[Card.__str__] = card_str
    eng.stubs[Bid.str_to_bid.__func__] = dec('bid', real_bid)
    eng.stubs[Card.str_to_card.__func__] = dec('card', real_card)
    eng.stubs[Contract.__str__] = enc('contract')

    def str_to_contract(e, args, kw):
        tok = args[1] if len(args) > 1 else kw['str_contract']
        vul = kw.get('vul', args[2] if len(args) > 2 else None)
        decl = kw.get('declarer', args[3] if len(args) > 3 else None)
        if not (isinstance(tok, Opaque) and tok.kind == 'str:contract'):
            raise symx.RaiseEx(ValueError('not a contract text'))
        c = tok.payload
        po = e.call_function(Contract.is_passed_out, [c], {})
        if e.truth(po):
            if decl is not None and not (isinstance(decl, SEnum) and decl.opt and e.decide(decl.z == 0)):
                raise symx.RaiseEx(AssertionError())
            return SObj(Contract, dict(final_bid=None, x=False, xx=False, vul=vul, declarer=None))
        # C15: the text carries level, denomination and doubling STATUS; vulnerability and declarer come from the arguments
        st_x = SBool(z3.Or(zbool(c.attrs['x']), zbool(c.attrs['xx'])))
        return SObj(Contract, dict(final_bid=c.attrs['final_bid'], x=st_x, xx=c.attrs['xx'], vul=vul, declarer=decl))
    eng.stubs[Contract.str_to_contract.__func__] = str_to_contract


def text(eng, name, n, symbolic):
    if not symbolic:
        return name[:n] if n else ''
    ch = [z3.Int(f'{name}_{i}') for i in range(n)]
    for c in ch:
        eng.assume(z3.And(c >= 0, c <= 0x10FFFF))
    return SStr(ch) if ch else ''


def make_record(eng, i, symbolic, tricks_n, auction_n, with_dda, scoring_sym=True):
    """returns dict of writer arguments + ghost terms"""
    from bridge_env import Bid, Card, Contract, Hands, Pair, Player, Suit, TrickHistory, Vul
    from bridge_env.data_handler.pbn_handler.writer import Scoring
    from bridge_env.playing_phase import PlayingHistory
    I = (lambda n: z3.Int(f'r{i}_{n}')) if symbolic else None

    def iv(name, lo, hi, default):
        if symbolic:
            v = I(name)
            eng.assume(z3.And(lo <= v, v <= hi))
            return v
        return z3.IntVal(default)
    dealer, vul = iv('dealer', 1, 4, 1 + i % 4), iv('vul', 1, 4, 1 + (i + 1) % 4)
    passed_out = eng.decide(z3.Bool(f'r{i}_passed_out')) if symbolic else (i % 2 == 1)
    if passed_out:
        which_none = eng.decide(z3.Bool(f'r{i}_final_bid_none')) if symbolic else True
        contract = SObj(Contract, dict(final_bid=None if which_none else Bid.Pass, x=False, xx=False, vul=SEnum(Vul, vul), declarer=None))
        declarer = None
        tricks = None
        play = None
        g = dict(bid=None, status=z3.IntVal(0), declarer=z3.IntVal(0))
    else:
        bid, declarer = iv('bid', 1, 35, 12), iv('declarer', 1, 4, 2)
        x = z3.Bool(f'r{i}_x') if symbolic else z3.BoolVal(False)
        xx = z3.Bool(f'r{i}_xx') if symbolic else z3.BoolVal(False)
        contract = SObj(Contract, dict(final_bid=SEnum(Bid, bid), x=SBool(x), xx=SBool(xx), vul=SEnum(Vul, vul), declarer=SEnum(Player, declarer)))
        tricks = SInt(iv('tricks', 0, 13, 9))
        hist = []
        for k in range(tricks_n):
            sym_leader = symbolic and k in (0, tricks_n - 1)
            leader = SEnum(Player, iv(f'leader{k}', 1, 4, 1 + k % 4)) if sym_leader else Player(1 + k % 4)
            cs = []
            for j in range(4):
                if symbolic and k in (0, tricks_n - 1):
                    r, s = iv(f't{k}c{j}_rank', 2, 14, 2), iv(f't{k}c{j}_suit', 1, 4, 1)
                    cs.append(cardmod.sym_card(r, s))
                else:
                    cs.append(Card(2 + (k + 3 * j) % 13, Suit(1 + j % 4)))
            hist.append(SObj(TrickHistory, dict(leader=leader, cards=tuple(cs))))
        play = SObj(PlayingHistory, {'_history': hist, '_contract': contract})
        g = dict(bid=bid, status=z3.If(xx, 2, z3.If(x, 1, 0)), declarer=declarer)
    if symbolic:
        hs = {p: cardmod.fresh_cardset(f'r{i}_hand{p}') for p in range(1, 5)}
        for p in range(1, 5):
            eng.assume(hs[p].axioms())
        for c in range(52):
            bits = [hs[p].bits[c] for p in range(1, 5)]
            eng.assume(z3.And([z3.Not(z3.And(bits[a], bits[b])) for a in range(4) for b in range(a + 1, 4)]))
    else:
        hs = {p: cardmod.cardset_from_cards(eng, [cardmod.CARDS[(13 * (p - 1) + k * 4 + i) % 52] for k in range(3)]) for p in range(1, 5)}
    deal = SObj(Hands, {SEATS[p]: hs[p] for p in range(1, 5)})
    auction = [SEnum(Bid, iv(f'call{k}', 1, 38, 36)) for k in range(auction_n)]
    names = {s: text(eng, f'r{i}_{s}', 2 if s != 'board_id' else 3, symbolic) for s in ('west', 'north', 'east', 'south', 'board_id')}
    scores = {Pair.NS: SInt(iv('score_ns', -7600, 7600, 50)) if symbolic else 50,
              Pair.EW: SInt(iv('score_ew', -7600, 7600, -50)) if symbolic else -50}
    dda = None
    if with_dda:
        dda = {Player(p): {Suit(s): (SInt(iv(f'dda_{p}_{s}', 0, 13, 7)) if symbolic else (p + s) % 14) for s in range(1, 6)} for p in range(1, 5)}
    # the scoring system: every member of the writer's enumeration (a fork per member for the symbolic record, a rotating
    # member for the fixed ones)
    members = list(Scoring)
    scoring = members[(3 * i + 2) % len(members)]
    if symbolic and scoring_sym:
        lo, hi = 0, len(members) - 1
        while lo < hi:                      # binary decision tree over the members
            mid = (lo + hi) // 2
            if eng.decide(z3.Bool(f'r{i}_scoring_le_{mid}_{lo}_{hi}')):
                hi = mid
            else:
                lo = mid + 1
        scoring = members[lo]
    args = dict(board_id=names['board_id'], west_player=names['west'], north_player=names['north'], east_player=names['east'],
                south_player=names['south'], dealer=SEnum(Player, dealer), deal=deal, scoring=scoring, bid_history=auction,
                contract=contract, play_history=play, taken_trick_num=tricks, scores=scores, dda=dda)
    ghost = dict(dealer=dealer, vul=vul, hands=hs, passed_out=passed_out, names=names, auction=auction, tricks=tricks, scores=scores,
                 dda=dda, play=play, scoring=scoring, **g)
    return args, ghost


def is_member(v, cls):
    return (isinstance(v, SEnum) and v.cls is cls) or isinstance(v, cls)


def str_eq(a, b):
    e = sstr.eq(a, b) if isinstance(a, (str, SStr)) and isinstance(b, (str, SStr)) else False
    return e if not isinstance(e, bool) else z3.BoolVal(e)


def compare_log(log, g):
    """labelled z3/python conditions: BoardLog `log` equals the written record `g` in every field and type"""
    from bridge_env import Bid, Card, Contract, Hands, Pair, Player, Suit, TrickHistory, Vul
    out = []
    add = lambda l, c: out.append((l, c))
    add('board_id', str_eq(log.board_id, g['names']['board_id']))
    pl = log.players
    ok = isinstance(pl, dict) and set(pl) == set(Player)
    add('players: a name per Player', ok)
    if ok:
        add('players: names', z3.And([str_eq(pl[Player(p)], g['names'][SEATS[p]]) for p in range(1, 5)]))
    add('dealer is a Player', is_member(log.dealer, Player))
    add('dealer', zenum(log.dealer) == g['dealer'] if is_member(log.dealer, Player) else False)
    add('vul is a Vul', is_member(log.vul, Vul))
    add('vul', zenum(log.vul) == g['vul'] if is_member(log.vul, Vul) else False)
    h = log.hands
    hok = isinstance(h, SObj) and h.cls is Hands or isinstance(h, Hands)
    add('hands is a Hands', hok)
    if hok:
        conds = []
        for p in range(1, 5):
            s = h.attrs[SEATS[p]] if isinstance(h, SObj) else getattr(h, SEATS[p])
            if not isinstance(s, CardSet):
                idx = {cardmod.card_idx(c) for c in s}
                conds.append(z3.And([g['hands'][p].bits[i] == (i in idx) for i in range(52)]))
            else:
                conds.append(z3.And([s.bits[i] == g['hands'][p].bits[i] for i in range(52)]))
        add('deal', z3.And(conds))
    c = log.contract
    cok = isinstance(c, SObj) and c.cls is Contract or isinstance(c, Contract)
    add('contract is a Contract', cok)
    gf = (lambda k: c.attrs[k]) if isinstance(c, SObj) else (lambda k: getattr(c, k))
    if g['passed_out']:
        add('declarer None when passed out', log.declarer is None)
        add('taken_trick None when passed out', log.taken_trick is None)
        add('play_history None when passed out', log.play_history is None)
        if cok:
            fb = gf('final_bid')
            add('passed-out contract', (fb is None or fb is Bid.Pass) and gf('declarer') is None)
            add('contract vulnerability', zenum(gf('vul')) == g['vul'])
    else:
        add('declarer is a Player', is_member(log.declarer, Player))
        add('declarer', zenum(log.declarer) == g['declarer'] if is_member(log.declarer, Player) else False)
        if cok:
            fb = gf('final_bid')
            add('contract bid is a Bid', is_member(fb, Bid))
            add('contract: bid, doubling status, vulnerability, declarer',
                z3.And(zenum(fb) == g['bid'], z3.If(zbool(gf('xx')), 2, z3.If(zbool(gf('x')), 1, 0)) == g['status'],
                       zenum(gf('vul')) == g['vul'], zenum(gf('declarer')) == g['declarer']) if is_member(fb, Bid) else False)
        tt = log.taken_trick
        add('taken_trick', zint(tt) == zint(g['tricks']) if isinstance(tt, (int, SInt)) and not isinstance(tt, bool) else False)
        ph = log.play_history
        want = g['play'].attrs['_history']
        pok = isinstance(ph, list) and len(ph) == len(want)
        add('play_history: one entry per recorded trick', pok)
        if pok:
            conds, types = [], True
            for got, w in zip(ph, want):
                gg = (lambda k, o=got: o.attrs[k]) if isinstance(got, SObj) else (lambda k, o=got: getattr(o, k))
                types = types and (isinstance(got, SObj) and got.cls is TrickHistory or isinstance(got, TrickHistory))
                ld = gg('leader')
                types = types and is_member(ld, Player)
                if is_member(ld, Player):
                    conds.append(zenum(ld) == zenum(w.attrs['leader']))
                cs = gg('cards')
                if not isinstance(cs, tuple) or len(cs) != 4:
                    types = False
                    continue
                for a, b in zip(cs, w.attrs['cards']):
                    aok = isinstance(a, SObj) and a.cls is Card or isinstance(a, Card)
                    types = types and aok
                    if aok:
                        ra = a.attrs['rank'] if isinstance(a, SObj) else a.rank
                        sa = a.attrs['suit'] if isinstance(a, SObj) else a.suit
                        rb = b.attrs['rank'] if isinstance(b, SObj) else b.rank
                        sb = b.attrs['suit'] if isinstance(b, SObj) else b.suit
                        conds.append(z3.And(zint(ra) == zint(rb), zenum(sa) == zenum(sb)))
            add('play_history: leaders are Player, cards are a tuple of Card', types)
            add('play_history: each trick\'s leader and cards', z3.And(conds) if conds else True)
    bh = log.bid_history
    bok = isinstance(bh, list) and len(bh) == len(g['auction'])
    add('bid_history: one entry per call', bok)
    if bok:
        add('bid_history: entries are Bid', all(is_member(b, Bid) for b in bh))
        add('bid_history: calls in order', z3.And([zenum(a) == zenum(b) for a, b in zip(bh, g['auction'])] or [True])
            if all(is_member(b, Bid) for b in bh) else False)
    add('score_type is the text of the scoring system that was written (Scoring(text) is that member)',
        str_eq(log.score_type, g['scoring'].value))
    sc = log.scores
    sok = isinstance(sc, dict) and set(sc) == set(Pair)
    add('scores keyed by Pair', sok)
    if sok:
        add('scores', z3.And(zint(sc[Pair.NS]) == zint(g['scores'][Pair.NS]), zint(sc[Pair.EW]) == zint(g['scores'][Pair.EW])))
    add_dda(out, log.dda, g['dda'])
    return out


def add_dda(out, got, want):
    from bridge_env import Player, Suit
    if want is None:
        out.append(('dda absent', got is None))
        return
    ok = isinstance(got, dict) and set(got) == set(Player) and all(isinstance(v, dict) and set(v) == set(Suit) for v in got.values())
    out.append(('dda keyed by Player and Suit', ok))
    if ok:
        out.append(('dda values', z3.And([zint(got[p][s]) == zint(want[p][s]) for p in Player for s in Suit])))


def compare_setting(bs, g):
    from bridge_env import Hands, Player, Vul
    out = []
    out.append(('setting board_id', str_eq(bs.board_id, g['names']['board_id'])))
    out.append(('setting dealer', zenum(bs.dealer) == g['dealer'] if is_member(bs.dealer, Player) else False))
    out.append(('setting vul', zenum(bs.vul) == g['vul'] if is_member(bs.vul, Vul) else False))
    h = bs.hands
    conds = []
    for p in range(1, 5):
        s = h.attrs[SEATS[p]] if isinstance(h, SObj) else getattr(h, SEATS[p])
        if isinstance(s, CardSet):
            conds.append(z3.And([s.bits[i] == g['hands'][p].bits[i] for i in range(52)]))
        else:
            idx = {cardmod.card_idx(c) for c in s}
            conds.append(z3.And([g['hands'][p].bits[i] == (i in idx) for i in range(52)]))
    out.append(('setting deal', z3.And(conds)))
    add_dda(out, bs.dda, g['dda'])
    return out


def record_json(m, g):
    ev = lambda z: hx.mval(m, z)
    tx = lambda s: ''.join(chr(ev(c) if not isinstance(c, int) else c) for c in sstr.chars_of(s))

    def card(c):
        if isinstance(c, SObj):
            return (ev(zenum(c.attrs['suit'])) - 1) * 13 + ev(zint(c.attrs['rank'])) - 2
        return cardmod.card_idx(c)
    return dict(
        dealer=ev(g['dealer']), vul=ev(g['vul']), passed_out=g['passed_out'],
        bid=None if g['bid'] is None else ev(g['bid']), status=ev(g['status']), declarer=ev(g['declarer']),
        names={k: tx(v) for k, v in g['names'].items()},
        deal={str(p): [i for i in range(52) if ev(g['hands'][p].bits[i]) is True] for p in range(1, 5)},
        auction=[ev(zenum(b)) for b in g['auction']], scoring=g['scoring'].name,
        tricks=None if g['tricks'] is None else ev(zint(g['tricks'])),
        play=None if g['play'] is None else [[ev(zenum(t.attrs['leader'])), [card(c) for c in t.attrs['cards']]] for t in g['play'].attrs['_history']],
        scores=[ev(zint(v)) for v in g['scores'].values()],
        dda=None if g['dda'] is None else [[ev(zint(v)) for v in d.values()] for d in g['dda'].values()])


def cex_of(m, ghosts, sym_i, extra):
    """every record of the list is written out (the fixed ones too), so that the replay writes exactly the same document"""
    out = dict(kind='log', m=len(ghosts), symbolic_record=sym_i, **extra)
    out['records'] = [record_json(m, g) for g in ghosts]
    out['record'] = out['records'][sym_i] if sym_i is not None and ghosts else None
    return out


def dda_at(with_dda, i):
    """with_dda: bool for every record, or a pattern such as 'YNY' (record i carries a double-dummy table iff 'Y')"""
    return with_dda[i] == 'Y' if isinstance(with_dda, str) else bool(with_dda)


def case_logs(m, sym_i, tricks_n, auction_n, with_dda):
    from bridge_env.data_handler.json_handler.parser import JsonParser
    from bridge_env.data_handler.json_handler.writer import JsonLogWriter

    def path(eng):
        from bridge_env import Player
        eng.summarize.add(Player.__str__)
        jsonio.install(eng)
        install_codecs(eng)
        recs = [make_record(eng, i, i == sym_i, tricks_n, auction_n, dda_at(with_dda, i)) for i in range(m)]
        ghosts = [g for _, g in recs]
        extra = dict(tricks_n=tricks_n, auction_n=auction_n, with_dda=with_dda)
        cex = lambda mm: cex_of(mm, ghosts, sym_i, extra)
        f = jsonio.new_file()
        try:
            w = eng.construct(JsonLogWriter, [f], {})
            eng.call_function(JsonLogWriter.open, [w], {})
            for a, _ in recs:
                eng.call_function(JsonLogWriter.write, [w], a)
            eng.call_function(JsonLogWriter.close, [w], {})
        except symx.RaiseEx as e:
            return dict(outcome='writer raised', cex=cex, checks=[(f'the writer does not raise ({e.exc!r})', False)])
        chk = []
        try:
            doc = jsonio.load_chunks(eng, f.attrs['chunks'])
        except symx.RaiseEx as e:
            return dict(outcome='not json', cex=cex, checks=[(f'the written text is one valid JSON document ({e.exc})', False)])
        chk.append(('document is {"logs": [m records]}', isinstance(doc, dict) and list(doc) == ['logs'] and len(doc['logs']) == m))
        load = jsonio.schema_loader(common.REPO)
        root = load('log_format.schema.json')
        viol = jsonio.validate(doc, root, root, load)
        chk.append(('document conforms to the published log schema' + (': ' + viol[0] if viol else ''), not viol))
        try:
            logs = eng.call_function(JsonParser.parse_board_logs, [SObj(JsonParser, {}), f], {})
        except symx.RaiseEx as e:
            return dict(outcome='parser raised', cex=cex, checks=chk + [(f'parse_board_logs reads the document ({e.exc!r})', False)])
        chk.append(('one BoardLog per record', isinstance(logs, list) and len(logs) == m))
        if isinstance(logs, list) and len(logs) == m:
            for i, (log, g) in enumerate(zip(logs, ghosts)):
                for l, c in compare_log(log, g):
                    chk.append((f'record {i}: {l}', c))
        try:
            sets = eng.call_function(JsonParser.parse_board_settings, [SObj(JsonParser, {}), f], {})
        except symx.RaiseEx as e:
            return dict(outcome='parser raised', cex=cex, checks=chk + [(f'parse_board_settings accepts the log document ({e.exc!r})', False)])
        chk.append(('one BoardSetting per record, in order', isinstance(sets, list) and len(sets) == m))
        if isinstance(sets, list) and len(sets) == m:
            for i, (bs, g) in enumerate(zip(sets, ghosts)):
                for l, c in compare_setting(bs, g):
                    chk.append((f'record {i}: {l}', c))
        return dict(outcome='round trip' if m else 'empty list', cex=cex, checks=chk)
    return hx.explore_case(path, dict(max_paths=20000))


def cases(tier):
    cs = [(case_logs, 'empty list of records', dict(m=0, sym_i=None, tricks_n=0, auction_n=0, with_dda=False))]
    # dda patterns: tables on some records only, in every order (state kept by the writer between records must not leak)
    combos = [(1, 0, 1, 3, False), (1, 0, 13, 4, True), (2, 1, 2, 3, True), (3, 1, 0, 0, False), (3, 2, 1, 6, False), (2, 0, 2, 0, True),
              (2, 1, 1, 2, 'YN'), (2, 0, 1, 2, 'YN'), (3, 1, 0, 1, 'NYN'), (3, 2, 1, 0, 'YNY')]
    if tier == 'thorough':
        combos += [(3, 0, 13, 6, True), (3, 2, 13, 6, True), (2, 1, 13, 0, False), (1, 0, 2, 6, False), (3, 1, 2, 6, True),
                   (3, 2, 2, 3, 'YNN'), (3, 0, 2, 3, 'NNY'), (2, 0, 13, 4, 'NY'), (3, 1, 1, 6, 'YYN')]
    for m, i, t, a, d in combos:
        cs.append((case_logs, f'{m} records, record {i} symbolic, {t} tricks, {a} calls, dda={d}', dict(m=m, sym_i=i, tricks_n=t, auction_n=a, with_dda=d)))
    return cs


META = dict(
    level='model_checking',
    bounds=lambda tier: {'records': 'lists of 0..3 records; one record fully symbolic (each position in turn), the others fixed',
                         'symbolic record': 'dealer, vulnerability, declarer, contract (35 bids x doubling flags, passed out with final bid None or Pass), deal = four disjoint 52-bit sets, '
                                            'auction of 0..6 symbolic calls, 0/1/2/13 tricks (first and last trick symbolic leader and cards), tricks 0..13, scores, names/ids of 2-3 unconstrained code points, optional dda; tables on all, none or some of the records (patterns YN, NYN, YNY, ...)'},
    stubs=['json.dumps -> opaque token carrying the normalised data; json.load parses the framing with the real json module and re-inserts the data',
           'file object = capturing list of chunks', 'str()/str_to_* of Bid, Card, Contract replaced by opaque codecs (their round trip is C15)'],
    assumptions=['json.loads(json.dumps(d)) == d for str-keyed dict/list/str/int/None', 'the schema validator in harness/jsonio.py covers the keywords the two published schemas use (an unknown keyword stops the run)'],
    rule='feasible paths of writer -> parser on a symbolic record',
    explanation='record-level symbolic execution of the real writer and parser with the JSON text layer stubbed by its contract',
    required_outcomes=['round trip', 'empty list'],
)


def validate(tier):
    """translator validation: the interpreter in concrete mode against CPython on the functions this check encodes"""
    from engine import validate as v
    return v.run(['converters'], tier)
