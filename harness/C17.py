"""C17 — board-settings files are read back as the boards that were written, in order.

JSON: JsonBoardSettingWriter.write -> (json layer stubbed by its contract, see harness/jsonio.py) -> schema ->
JsonParser.parse_board_settings on lists of 0..3 boards with one fully symbolic board (as C12).

PBN: the import file is rendered by the harness from a layout (blank-line runs before / between / after games incl. lines of
blanks and tabs, LF or CRLF, order of the four needed tags among additional tags, '%' header lines, a table section with
rows) and symbolic content (dealer, vulnerability in any accepted spelling, first seat of the deal, board id of symbolic
characters over the property's alphabet, hands through the deal-codec contract); the real PbnParser.parse_board_settings
(parse_stream / extract_content / parse_board with the real regular expressions) is executed on the lines.
"""
import itertools
import random

import z3

from engine import cards as cardmod
from engine import common, hx, sstr, symx
from engine.symx import SEnum, SInt, SObj, SStr, Sym, zenum, zint
from harness import C12, jsonio, pbn

SPELLINGS = {1: ['None', 'Love', '-'], 2: ['NS'], 3: ['EW'], 4: ['All', 'Both']}


# --------------------------------------------------------------------------
# JSON board settings
# --------------------------------------------------------------------------
def case_json(m, sym_i, with_dda):
    from bridge_env import Hands, Player, Suit, Vul
    from bridge_env.data_handler.json_handler.parser import JsonParser
    from bridge_env.data_handler.json_handler.writer import JsonBoardSettingWriter

    def path(eng):
        eng.summarize.add(Player.__str__)
        jsonio.install(eng)
        recs = []
        for i in range(m):
            symbolic = i == sym_i
            _, g = C12.make_record(eng, i, symbolic, 0, 0, C12.dda_at(with_dda, i), scoring_sym=False)
            recs.append(g)

        def cex(mm):
            d = C12.cex_of(mm, recs, sym_i, dict(with_dda=with_dda))
            d['kind'] = 'settings'
            return d
        f = jsonio.new_file()
        try:
            w = eng.construct(JsonBoardSettingWriter, [f], {})
            eng.call_function(JsonBoardSettingWriter.__enter__, [w], {})
            for g in recs:
                eng.call_function(JsonBoardSettingWriter.write, [w], dict(
                    board_id=g['names']['board_id'], dealer=SEnum(Player, g['dealer']),
                    deal=SObj(Hands, {C12.SEATS[p]: g['hands'][p] for p in range(1, 5)}), vul=SEnum(Vul, g['vul']), dda=g['dda']))
            eng.call_function(JsonBoardSettingWriter.__exit__, [w, None, None, None], {})
        except symx.RaiseEx as e:
            return dict(outcome='writer raised', cex=cex, checks=[(f'the writer does not raise ({e.exc!r})', False)])
        chk = []
        try:
            doc = jsonio.load_chunks(eng, f.attrs['chunks'])
        except symx.RaiseEx as e:
            return dict(outcome='not json', cex=cex, checks=[(f'the written text is one valid JSON document ({e.exc})', False)])
        chk.append(('document is {"board_settings": [m boards]}', isinstance(doc, dict) and list(doc) == ['board_settings'] and len(doc['board_settings']) == m))
        load = jsonio.schema_loader(common.REPO)
        root = load('board_setting_format.schema.json')
        viol = jsonio.validate(doc, root, root, load)
        chk.append(('document conforms to the published board-setting schema' + (': ' + viol[0] if viol else ''), not viol))
        try:
            sets = eng.call_function(JsonParser.parse_board_settings, [SObj(JsonParser, {}), f], {})
        except symx.RaiseEx as e:
            return dict(outcome='parser raised', cex=cex, checks=chk + [(f'parse_board_settings reads the document ({e.exc!r})', False)])
        chk.append(('one BoardSetting per board, in order', isinstance(sets, list) and len(sets) == m))
        if isinstance(sets, list) and len(sets) == m:
            for i, (bs, g) in enumerate(zip(sets, recs)):
                for l, c in C12.compare_setting(bs, g):
                    chk.append((f'board {i}: {l}', c))
        return dict(outcome='json settings read back' if m else 'empty json list', cex=cex, checks=chk)
    return hx.explore_case(path, dict(max_paths=20000))


# --------------------------------------------------------------------------
# PBN import files
# --------------------------------------------------------------------------
def render(eng, layout, boards):
    """layout: dict(before, between, after: lists of blank-line texts; eol; order: tag order per game; extra: bool;
    header: bool; table: bool).  boards: list of dict(tags: {name: text})"""
    eol = layout['eol']
    lines = []
    if layout['header']:
        lines += ['% PBN 2.1' + eol, '% EXPORT' + eol]
    lines += [b + eol for b in layout['before']]
    for i, b in enumerate(boards):
        if i:
            lines += [x + eol for x in layout['between']]
        names = list(layout['order'])
        tags = dict(b['tags'])
        if layout['extra']:
            tags['Event'] = 'Verification Cup'
            tags['Scoring'] = 'IMP'
            names = ['Event'] + names + ['Scoring']
        # the table section (a tag followed by rows) sits after the other tags, before them, or between two of them
        tpos = {'end': len(names), 'start': 0, 'middle': len(names) // 2}[layout.get('table_pos', 'end')] if layout['table'] else None
        for j, n in enumerate(names + [None]):
            if j == tpos:
                lines.append('[OptimumResultTable "Declarer;Denomination\\2R;Result\\2R"]' + eol)
                lines += ['N NT  7' + eol, 'S  S 12' + eol]
            if n is not None:
                lines.append(sstr.concat(eng, ['[', n, ' "', tags[n], '"]', eol]))
    lines += [x + eol for x in layout['after']]
    return lines


def case_pbn(layout, n, sym_i, id_len):
    from bridge_env import Player, Vul
    from bridge_env.data_handler.pbn_handler.parser import PbnParser

    def path(eng):
        codecs = [pbn.DealCodec(eng, f'd{i}') for i in range(n)]
        pbn.install_codecs(eng, codecs)
        boards, ghosts = [], []
        for i in range(n):
            symbolic = i == sym_i
            if symbolic:
                dealer, vul, first = z3.Int('dealer'), z3.Int('vul'), z3.Int('first_seat')
                eng.assume(z3.And(1 <= dealer, dealer <= 4, 1 <= vul, vul <= 4, 1 <= first, first <= 4))
                vv = eng.concretize_int(SInt(vul), 1, 4)
                sp = SPELLINGS[vv][0]
                for cand in SPELLINGS[vv][1:]:
                    if eng.decide(z3.Bool(f'spelling_{cand}')):
                        sp = cand
                        break
                fv = eng.concretize_int(SInt(first), 1, 4)
                bid = pbn.free_text(eng, 'board_id', id_len)
                dch = z3.If(dealer == 1, ord('N'), z3.If(dealer == 2, ord('E'), z3.If(dealer == 3, ord('S'), ord('W'))))
                dealer_txt = SStr([dch])
            else:
                dealer, vul, fv = z3.IntVal(1 + i % 4), z3.IntVal(1 + (i + 1) % 4), 1 + (i + 2) % 4
                sp = SPELLINGS[1 + (i + 1) % 4][-1]
                bid = f'B{i}'
                dealer_txt = 'NESW'[i % 4]
            c = codecs[i]
            hands_txt = []
            for k in range(4):
                p = (fv - 1 + k) % 4 + 1
                hands_txt += ([' '] if k else []) + [c.tokens[p]]
            deal_txt = sstr.concat(eng, ['NESW'[fv - 1], ':'] + hands_txt)
            boards.append(dict(tags={'Board': bid, 'Dealer': dealer_txt, 'Vulnerable': sp, 'Deal': deal_txt}))
            ghosts.append(dict(dealer=dealer, vul=vul, first=fv, spelling=sp, board_id=bid, codec=c))
        lines = render(eng, layout, boards)

        def cex(m):
            g = ghosts[sym_i]
            return {'kind': 'pbn', 'layout': layout, 'n': n, 'symbolic_board': sym_i, 'dealer': hx.mval(m, g['dealer']),
                    'vul_spelling': g['spelling'], 'first': g['first'], 'board_id': pbn.text_of(m, g['board_id'])}
        try:
            sets = eng.call_function(PbnParser.parse_board_settings, [eng.construct(PbnParser, [], {}), lines], {})
        except symx.RaiseEx as e:
            return dict(outcome='parser raised', cex=cex, checks=[(f'parse_board_settings reads the file ({e.exc!r})', False)])
        chk = [('one board per game, in order', isinstance(sets, list) and len(sets) == n)]
        if isinstance(sets, list) and len(sets) == n:
            for i, (bs, g) in enumerate(zip(sets, ghosts)):
                tok = (isinstance(bs.dealer, SEnum) and bs.dealer.cls is Player or isinstance(bs.dealer, Player)) and \
                      (isinstance(bs.vul, SEnum) and bs.vul.cls is Vul or isinstance(bs.vul, Vul))
                chk.append((f'board {i}: dealer and vulnerability are value objects', tok))
                if tok:
                    e = sstr.eq(bs.board_id, g['board_id']) if isinstance(bs.board_id, (str, SStr)) else False
                    chk.append((f'board {i}: same dealer, vulnerability (spelling {g["spelling"]}), board id',
                                z3.And(zenum(bs.dealer) == g['dealer'], zenum(bs.vul) == g['vul'], e if not isinstance(e, bool) else z3.BoolVal(e))))
                chk.append((f'board {i}: same deal, whatever the first seat', pbn.same_hands(bs.hands, g['codec'])))
        return dict(outcome='pbn file read back', cex=cex, checks=chk)
    return hx.explore_case(path, dict(max_paths=20000))


NEEDED = ('Board', 'Dealer', 'Vulnerable', 'Deal')


def layouts(tier):
    rnd = random.Random(common.SEED + 17)
    blanks = ['', ' ', '\t', '  \t ']
    base = [
        dict(before=[], between=[''], after=[], eol='\n', order=NEEDED, extra=False, header=False, table=False),
        dict(before=[''], between=['', ''], after=['', ''], eol='\n', order=('Deal', 'Vulnerable', 'Dealer', 'Board'), extra=True, header=True, table=False),
        dict(before=['', ' '], between=['\t', '', ''], after=[''], eol='\r\n', order=('Dealer', 'Deal', 'Board', 'Vulnerable'), extra=False, header=True, table=True),
        dict(before=[], between=['  '], after=['', '\t'], eol='\r\n', order=('Vulnerable', 'Board', 'Deal', 'Dealer'), extra=True, header=False, table=True),
        dict(before=[''], between=[''], after=[''], eol='\n', order=('Board', 'Dealer', 'Vulnerable', 'Deal'), extra=False, header=True, table=True, table_pos='start'),
        dict(before=[], between=['', ' '], after=[], eol='\r\n', order=('Deal', 'Board', 'Vulnerable', 'Dealer'), extra=True, header=False, table=True, table_pos='middle'),
    ]
    perms = list(itertools.permutations(NEEDED))
    k = 2 if tier != 'thorough' else 20
    for _ in range(k):
        base.append(dict(before=[rnd.choice(blanks) for _ in range(rnd.randint(0, 2))],
                         between=[rnd.choice(blanks) for _ in range(rnd.randint(1, 3))],
                         after=[rnd.choice(blanks) for _ in range(rnd.randint(0, 2))], eol=rnd.choice(['\n', '\r\n']),
                         order=rnd.choice(perms), extra=rnd.random() < 0.5, header=rnd.random() < 0.5, table=rnd.random() < 0.5,
                         table_pos=rnd.choice(['end', 'start', 'middle'])))
    return base


def cases(tier):
    cs = [(case_json, 'JSON: empty list', dict(m=0, sym_i=None, with_dda=False))]
    for m, i, d in ([(1, 0, True), (2, 1, False), (3, 0, True), (3, 2, False), (2, 1, 'YN'), (3, 1, 'NYN'), (3, 2, 'YNY')] if tier != 'thorough' else
                    [(m, i, d) for m in (1, 2, 3) for i in range(m) for d in (True, False)] + [(2, 0, 'YN'), (2, 1, 'YN'), (2, 0, 'NY'), (3, 1, 'NYN'),
                                                                                               (3, 2, 'YNY'), (3, 0, 'YNN'), (3, 2, 'YYN')]):
        cs.append((case_json, f'JSON: {m} boards, board {i} symbolic, dda={d}', dict(m=m, sym_i=i, with_dda=d)))
    for j, lay in enumerate(layouts(tier)):
        n = 1 + j % 3
        cs.append((case_pbn, f'PBN layout {j}: {n} boards, blank runs {len(lay["before"])}/{len(lay["between"])}/{len(lay["after"])}, '
                             f'eol {"CRLF" if lay["eol"] != chr(10) else "LF"}, order {"".join(x[0] + x[1] for x in lay["order"])}, extra={lay["extra"]}, header={lay["header"]}, table={lay["table"] and lay.get("table_pos", "end")}',
                   dict(layout=lay, n=n, sym_i=j % n, id_len=2 + j % 2)))
    # the hand codec that the PBN cases replace by its contract (round trip, canonical text, and: every decode hands out a
    # set of its own - parsed boards are consumed in place by the play engine) is discharged here on a few suit shapes;
    # C14 runs all of them
    from harness import C14
    hc = [c for c in C14.cases(tier) if c[0] is C14.case_pbn_hand]
    cs += hc[:(6 if tier == 'thorough' else 2)]
    cs.append((case_pbn, 'PBN: empty file (0 boards)', dict(layout=dict(before=[''], between=[], after=[], eol='\n', order=NEEDED, extra=False, header=True, table=False), n=0, sym_i=0, id_len=0)))
    return cs


META = dict(
    level='model_checking',
    bounds=lambda tier: {'json': 'lists of 0..3 boards, one fully symbolic board (dealer, vulnerability, 52-bit deal, id of 3 unconstrained code points, optional dda) at each position',
                         'pbn': ('8' if tier != 'thorough' else '26') + ' layouts (6 fixed, the rest seeded): 0..3 games; blank-line runs 0..2 before, 1..3 between, 0..2 after (empty, blanks, tabs); LF / CRLF; any order of the four needed tags; '
                                'additional tags; % header lines; a table section with rows after, before or between the other tags; per layout one board symbolic: dealer, vulnerability in every accepted spelling, first seat of the deal, board id of 2..3 symbolic characters over the property alphabet'},
    stubs=['json layer as in C12', 'deal-line hand codec replaced by its contract (C14)'],
    assumptions=['regular expressions by the sre-semantics model', 'PBN comments (; and {}) are not generated (the property does not list them)'],
    rule='feasible paths of the real parsers on a symbolic board inside a rendered file',
    explanation='files are rendered from a layout with symbolic content and read by the real parsers executed symbolically',
    required_outcomes=['json settings read back', 'empty json list', 'pbn file read back'],
)


def validate(tier):
    """translator validation: the interpreter in concrete mode against CPython on the functions this check encodes"""
    from engine import validate as v
    return v.run(['pbn_files', 'regex_model'], tier)
