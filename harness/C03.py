"""C03 — final contract = last bid, doubling status, vulnerability, true declarer; none before the end.

See harness/auction.py for the harnesses (H0 base, H1 inductive step from an arbitrary invariant state, H1e after
the end, H2 BMC from the real constructor against an explicit-history oracle); this module selects the assertions
that belong to C03.
"""
from harness import auction

PROPS = {'C03'}
KQ, KT = 6, 7
DEEP = (8, 10)          # bids-and-passes-only BMC: who declares does not depend on doubles


def cases(tier):
    return auction.build_cases(PROPS, tier, KQ, KT, deep=DEEP)


META = dict(
    level='model_checking',
    bounds=lambda tier: {'H1': 'history length unbounded (z3 Array + symbolic length); all 38 calls; all dealers/vulnerabilities',
                         'H2': f'every sequence of K={KT if tier == "thorough" else KQ} calls (38^K, symbolic) from the real constructor, '
                               'per dealer; an illegal call ends the sequence after its checks',
                         'H2 deep': f'every sequence of {DEEP[1] if tier == "thorough" else DEEP[0]} calls restricted to bids and passes, the last three being passes (declarer logic does not depend on doubles)',
                         'synthesis': f'counterexamples to induction must be reachable by <= {auction.SYNTH_MAX} calls of the reference machine'},
    stubs=['logger calls skipped'],
    assumptions=auction.COMMON_ASSUMPTIONS,
    rule='feasible paths of take_bid/contract from a symbolic state (H1) or along K symbolic calls (H2); distinct = different path conditions',
    explanation='one inductive step of the real take_bid from any invariant state + bounded model checking from the constructor against an explicit-history oracle',
    required_outcomes=[('ONGOING', 'H1 not applicable'), 'FINISHED', 'constructed'],
)


def validate(tier):
    """translator validation: the interpreter in concrete mode against CPython on the functions this check encodes"""
    from engine import validate as v
    return v.run(['auctions', 'converters'], tier)
