"""C14 — every deal survives every encoding round trip.

Encoded from source: Hands.to_binary/convert_binary/to_np_binary/convert_np_binary/to_pbn/_convert_hand_to_pbn/
convert_pbn/_hand_parser/generate_random_hands/__getitem__/__eq__, Card.__int__/int_to_card/rank_int_to_str/
rank_str_to_int/__post_init__/__lt__, json_handler.writer.convert_deal, json_handler.parser.hands_parser,
Card.__str__/str_to_card.

(1) binary tuple and numpy vectors, (2) JSON card lists: deal = four 52-bit sets, pairwise disjoint, ANY sizes (partial
    deals included) - one query covers every deal.
(3) PBN hand codec: an explicit 13-card hand per suit shape, ranks symbolic (strictly descending inside a suit); the
    string is built by the real code (symbolic characters), parsed back by the real regular expression + parser.
(4) PBN deal line: to_pbn / convert_pbn for a symbolic first seat with the hand codec replaced by its contract
    (16-character tokens over the PBN alphabet, '-' for an empty hand) - assume/guarantee with (3).
(5) random dealer: random.shuffle = an arbitrary permutation (a bijection given by a map and its inverse).
"""
import itertools
import random

import z3

from engine import cards as cardmod
from engine import common, hx, sstr, symx
from engine.symx import CardSet, GuardedList, SEnum, SInt, SObj, SStr, Sym, zenum, zint

SEATS = {1: 'north', 2: 'east', 3: 'south', 4: 'west'}


def sym_deal(eng, disjoint=True):
    from bridge_env import Hands
    hs = {p: cardmod.fresh_cardset(f'hand{p}') for p in range(1, 5)}
    for p in range(1, 5):
        eng.assume(hs[p].axioms())
        # exact cardinality: these cases are single-path, so the solver can afford the popcount
        eng.assume(hs[p].n == z3.Sum([z3.If(b, 1, 0) for b in hs[p].bits]))
    if disjoint:
        for i in range(52):
            bits = [hs[p].bits[i] for p in range(1, 5)]
            eng.assume(z3.And([z3.Not(z3.And(bits[a], bits[b])) for a in range(4) for b in range(a + 1, 4)]))
    return SObj(Hands, {SEATS[p]: hs[p] for p in range(1, 5)}), hs


def deal_cex(hs):
    def f(m):
        return {'kind': 'deal', 'deal': {str(p): [i for i in range(52) if hx.mval(m, hs[p].bits[i]) is True] for p in range(1, 5)}}
    return f


def hands_bits(h):
    """52 z3 Bools per seat of a Hands object returned by the interpreted code"""
    out = {}
    for p in range(1, 5):
        s = h.attrs[SEATS[p]] if isinstance(h, SObj) else getattr(h, SEATS[p])
        if isinstance(s, CardSet):
            out[p] = list(s.bits)
        else:
            idx = {cardmod.card_idx(c) for c in s}
            out[p] = [z3.BoolVal(i in idx) for i in range(52)]
    return out


def same_deal(bits, hs):
    return z3.And([bits[p][i] == hs[p].bits[i] for p in range(1, 5) for i in range(52)])


# --------------------------------------------------------------------------
def case_binary(which):
    from bridge_env import Hands, Player

    def path(eng):
        deal, hs = sym_deal(eng)
        cex = lambda m: dict(deal_cex(hs)(m), which=which)
        enc_f = Hands.to_binary if which == 'tuple' else Hands.to_np_binary
        dec_f = (Hands.convert_binary if which == 'tuple' else Hands.convert_np_binary).__func__
        try:
            enc = eng.call_function(enc_f, [deal], {})
        except symx.RaiseEx as e:
            return dict(outcome='raise', cex=cex, checks=[(f'encoding does not raise ({type(e.exc).__name__})', False)])
        chk = []
        slot = []
        for p in range(1, 5):
            v = enc[Player(p)]
            items = v.items if isinstance(v, symx.SArr) else list(v)
            if len(items) != 52:
                return dict(outcome='bad length', cex=cex, checks=[('vector has 52 slots', False)])
            for i in range(52):
                slot.append(zint(items[i]) == z3.If(hs[p].bits[i], 1, 0))
        chk.append(('slot i of a seat\'s vector is 1 exactly when the seat holds card number i', z3.And(slot)))
        try:
            back = eng.call_function(dec_f, [Hands, enc], {})
        except symx.RaiseEx as e:
            return dict(outcome='raise', cex=cex, checks=chk + [(f'decoding does not raise ({type(e.exc).__name__})', False)])
        chk.append(('decode(encode(deal)) is the same four hands', same_deal(hands_bits(back), hs)))
        return dict(outcome=which, cex=cex, checks=chk)
    return hx.explore_case(path)


def case_json():
    from bridge_env import Hands
    from bridge_env.data_handler.json_handler import parser as jp
    from bridge_env.data_handler.json_handler import writer as jw

    def path(eng):
        deal, hs = sym_deal(eng)
        cex = lambda m: dict(deal_cex(hs)(m), which='json')
        try:
            enc = eng.call_function(jw.convert_deal, [deal], {})
        except symx.RaiseEx as e:
            return dict(outcome='raise', cex=cex, checks=[(f'convert_deal does not raise ({type(e.exc).__name__})', False)])
        chk = []
        asc = True
        present = []
        for p, key in zip(range(1, 5), 'NESW'):
            lst = enc[key]
            items = lst.items if isinstance(lst, GuardedList) else [(None, x) for x in lst]
            idxs = []
            for g, x in items:
                if not isinstance(x, str):
                    asc = False
                    continue
                try:
                    i = 'CDHS'.index(x[0]) * 13 + '23456789TJQKA'.index(x[1])
                except (ValueError, IndexError):
                    asc = False
                    continue
                idxs.append(i)
                present.append((g if g is not None else z3.BoolVal(True)) == hs[p].bits[i])
            if idxs != sorted(idxs) or len(set(idxs)) != len(idxs):
                asc = False
            seen = set(idxs)
            for i in range(52):
                if i not in seen:
                    present.append(z3.Not(hs[p].bits[i]))
        chk.append(('JSON card lists are in ascending card order (any subset of the pack)', asc))
        chk.append(('a card is listed for a seat exactly when the seat holds it', z3.And(present)))
        try:
            back = eng.call_function(jp.hands_parser, [enc], {})
        except symx.RaiseEx as e:
            return dict(outcome='raise', cex=cex, checks=chk + [(f'hands_parser does not raise ({type(e.exc).__name__})', False)])
        chk.append(('hands_parser(convert_deal(deal)) is the same four hands', same_deal(hands_bits(back), hs)))
        return dict(outcome='json', cex=cex, checks=chk)
    return hx.explore_case(path)


# --------------------------------------------------------------------------
# PBN hand codec per suit shape
# --------------------------------------------------------------------------
def explicit_hand(eng, shape, tag=''):
    """13 (or fewer) symbolic cards: shape = (spades, hearts, diamonds, clubs) counts; inside a suit ranks strictly
    descending.  Returns (list of SObj cards in ASCENDING overall order, list of (rank z3, suit int))"""
    desc = []
    for suit_val, n in zip((4, 3, 2, 1), shape):
        prev = None
        for j in range(n):
            r = z3.Int(f'r{tag}_{suit_val}_{j}')
            eng.assume(z3.And(2 <= r, r <= 14))
            if prev is not None:
                eng.assume(r < prev)
            prev = r
            desc.append((r, suit_val))
    cards = [cardmod.sym_card(r, s) for r, s in desc]
    return list(reversed(cards)), desc


RANKCH = lambda r: z3.If(r == 14, ord('A'), z3.If(r == 13, ord('K'), z3.If(r == 12, ord('Q'), z3.If(r == 11, ord('J'),
                   z3.If(r == 10, ord('T'), 48 + r)))))


def case_pbn_hand(shapes):
    from bridge_env import Card, Hands

    def one(shape):
        def path(eng):
            eng.summarize.add(Card.rank_int_to_str.__func__)
            eng.summarize.add(Card.rank_str_to_int.__func__)
            hand, desc = explicit_hand(eng, shape)

            def cex(m):
                return {'kind': 'pbn_hand', 'cards': [(s - 1) * 13 + hx.mval(m, r) - 2 for r, s in desc]}
            try:
                t = eng.call_function(Hands._convert_hand_to_pbn, [hand], {})
            except symx.RaiseEx as e:
                return dict(outcome='raise', cex=cex, checks=[(f'_convert_hand_to_pbn does not raise ({type(e.exc).__name__})', False)])
            want = []
            k = 0
            for si, n in enumerate(shape):
                if si:
                    want.append(46)
                for j in range(n):
                    want.append(RANKCH(desc[k][0]))
                    k += 1
            got = sstr.chars_of(t)
            canon = z3.And([sstr.zc(a) == sstr.zc(b) for a, b in zip(got, want)]) if len(got) == len(want) else z3.BoolVal(False)
            chk = [('canonical text: suits S.H.D.C, ranks high to low, a void is an empty field', canon)]
            try:
                back = eng.call(Hands._hand_parser, [t], {})
                again = eng.call(Hands._hand_parser, [t], {})
            except symx.RaiseEx as e:
                return dict(outcome='raise', cex=cex, checks=chk + [(f'_hand_parser does not raise ({type(e.exc).__name__})', False)])
            # hands are mutable sets that the play engine consumes: every decode must hand out a set of its own
            chk.append(('decoding the same text twice gives two independent sets (no shared object)', back is not again))
            if not isinstance(back, CardSet):
                back = cardmod.cardset_from_cards(eng, back)
            bits = [z3.Or([cardmod.card_idx(c) == i for c in hand]) for i in range(52)]
            chk.append(('_hand_parser(_convert_hand_to_pbn(hand)) is the same hand', z3.And([back.bits[i] == bits[i] for i in range(52)])))
            return dict(outcome='hand', cex=cex, checks=chk, sample=repr(t))
        return path
    common.setup_path()
    res = None
    for shape in shapes:
        r = hx.explore_case(one(tuple(shape)), dict(max_paths=2000))
        if res is None:
            res = r
        else:
            for k, v in r.stats.items():
                if isinstance(v, (int, float)):
                    res.stats[k] = res.stats.get(k, 0) + v
            for k, v in r.outcomes.items():
                res.outcomes[k] = res.outcomes.get(k, 0) + v
            res.cex += r.cex
            res.samples += r.samples[:1]
            if r.status != 'ok' and res.status == 'ok':
                res.status, res.detail = r.status, f'shape {shape}: ' + r.detail
    res.samples = res.samples[:3]
    if res.status == 'ok':
        res.detail = f'{len(shapes)} suit shapes, outcomes {res.outcomes}'
    return res


def case_pbn_empty():
    from bridge_env import Hands

    def path(eng):
        try:
            t = eng.call_function(Hands._convert_hand_to_pbn, [CardSet([z3.BoolVal(False)] * 52, z3.IntVal(0))], {})
            back = eng.call_function(Hands._hand_parser, [t], {})
        except symx.RaiseEx as e:
            return dict(outcome='raise', cex=lambda m: {'kind': 'pbn_hand', 'cards': []}, checks=[('empty hand codec does not raise', False)])
        empty = (isinstance(back, CardSet) and z3.is_false(z3.simplify(z3.Or(back.bits)))) or (not isinstance(back, Sym) and len(back) == 0)
        return dict(outcome='empty hand', cex=lambda m: {'kind': 'pbn_hand', 'cards': []},
                    checks=[('an unknown (empty) hand is written as "-"', (t == '-') if isinstance(t, str) else False),
                            ('"-" parses to the empty hand', bool(empty))])
    return hx.explore_case(path)


# --------------------------------------------------------------------------
# PBN deal line with the hand codec replaced by its contract
# --------------------------------------------------------------------------
ALPHA = sorted(ord(c) for c in '23456789TJQKA.')


def case_pbn_deal(pattern):
    """pattern: tuple of 4 booleans (N, E, S, W): hand present (13 cards) or empty ('-')"""
    from bridge_env import Hands, Player

    def path(eng):
        first = z3.Int('first_seat')
        eng.assume(z3.And(1 <= first, first <= 4))
        tokens, hand_objs = {}, {}
        for p in range(1, 5):
            if pattern[p - 1]:
                ch = [z3.Int(f'tok{p}_{j}') for j in range(16)]
                for c in ch:
                    eng.assume(z3.Or([c == a for a in ALPHA]))
                tokens[p] = SStr(ch)
                hand_objs[p] = symx.Opaque('hand', p)
            else:
                tokens[p] = '-'
                hand_objs[p] = symx.Opaque('hand', 0)
        # tokens of different present hands differ (the codec is injective: guaranteed by case_pbn_hand)
        pres = [p for p in range(1, 5) if pattern[p - 1]]
        for a, b in itertools.combinations(pres, 2):
            e = sstr.eq(tokens[a], tokens[b])
            eng.assume(z3.Not(e))
        # the real constructor, and TWO writes from the same object (an earlier write from another first seat must not
        # influence a later one: query - query)
        deal = eng.construct(Hands, [hand_objs[p] for p in range(1, 5)], {})
        first0 = z3.Int('earlier_first_seat')
        eng.assume(z3.And(1 <= first0, first0 <= 4))

        def enc_stub(eng_, args, kw):
            h = args[-1]
            if not isinstance(h, symx.Opaque):
                raise symx.Unsupported('codec stub: unknown hand')
            return tokens[h.payload] if h.payload else '-'

        def dec_stub(eng_, args, kw):
            t = args[-1]
            if isinstance(t, str) and t == '-':
                return symx.Opaque('hand', 0)
            for p in pres:
                e = sstr.eq(t, tokens[p])
                if e is True or (e is not False and eng_.decide(e)):
                    return hand_objs[p]
            return symx.Opaque('hand', -1)
        eng.stubs[Hands._convert_hand_to_pbn] = enc_stub
        eng.stubs[Hands._hand_parser] = dec_stub

        def cex(m):
            return {'kind': 'pbn_deal', 'first': hx.mval(m, first), 'earlier_first': hx.mval(m, first0), 'present': list(pattern)}
        try:
            eng.call_function(Hands.to_pbn, [deal, SEnum(Player, first0)], {})
            line = eng.call_function(Hands.to_pbn, [deal, SEnum(Player, first)], {})
        except symx.RaiseEx as e:
            return dict(outcome='raise', cex=cex, checks=[(f'to_pbn does not raise ({type(e.exc).__name__})', False)])
        chars = sstr.chars_of(line)
        seatch = z3.If(first == 1, ord('N'), z3.If(first == 2, ord('E'), z3.If(first == 3, ord('S'), ord('W'))))
        want = [seatch, ord(':')]
        for k in range(4):
            if k:
                want.append(32)
            # k-th hand is the hand of seat first+k: on this path the engine has decided first (concretised by the rotation)
        chk = [('line starts with "<first seat>:"', z3.And(sstr.zc(chars[0]) == seatch, sstr.zc(chars[1]) == ord(':')) if len(chars) > 2 else False)]
        try:
            back = eng.call_function(Hands.convert_pbn.__func__, [Hands, line], {})
        except symx.RaiseEx as e:
            return dict(outcome='raise', cex=cex, checks=chk + [(f'convert_pbn does not raise ({type(e.exc).__name__}: {e.exc})', False)])
        ok = True
        for p in range(1, 5):
            h = back.attrs[SEATS[p]] if isinstance(back, SObj) else getattr(back, SEATS[p])
            if pattern[p - 1]:
                ok = ok and (h is hand_objs[p])
            else:
                ok = ok and isinstance(h, symx.Opaque) and h.payload == 0
        chk.append(('every seat gets its own hand back, whatever the first seat (empty hands stay empty)', ok))
        return dict(outcome='deal line', cex=cex, checks=chk)
    return hx.explore_case(path)


# --------------------------------------------------------------------------
# random dealer
# --------------------------------------------------------------------------
def case_dealer():
    from bridge_env import Hands

    def path(eng):
        perm = [z3.Int(f'perm{k}') for k in range(52)]
        inv = [z3.Int(f'inv{i}') for i in range(52)]
        for k in range(52):
            eng.assume(z3.And(0 <= perm[k], perm[k] <= 51, 0 <= inv[k], inv[k] <= 51))
        for k in range(52):
            for i in range(52):
                eng.assume((perm[k] == i) == (inv[i] == k))
        seen = {}

        def shuffle(eng_, args, kw):
            lst = args[-1]
            if not isinstance(lst, list) or len(lst) != 52:
                raise symx.Unsupported('shuffle stub: expected the 52-card list')
            orig = list(lst)
            idx = [cardmod.card_idx(c) for c in orig]
            if sorted(idx) != list(range(52)):
                seen['pack'] = False
            else:
                seen['pack'] = True
            # position k receives the card with universe index perm[k] (the list IS the full pack, checked above,
            # so a permutation of the list is a bijection positions <-> card indices)
            new = [cardmod.sym_card(perm[k] % 13 + 2, perm[k] / 13 + 1) for k in range(52)]
            lst[:] = new
            seen['orig_idx'] = idx
            return None
        eng.stubs[random.shuffle] = shuffle
        cex = lambda m: {'kind': 'dealer', 'perm': [hx.mval(m, p) for p in perm]}
        try:
            h = eng.call_function(Hands.generate_random_hands.__func__, [Hands], {})
        except symx.RaiseEx as e:
            return dict(outcome='raise', cex=cex, checks=[(f'generate_random_hands does not raise ({type(e.exc).__name__})', False)])
        if 'pack' not in seen:
            return dict(outcome='no shuffle', cex=cex, checks=[('the dealer shuffles the pack', False)])
        bits = hands_bits(h)
        once = []
        for i in range(52):
            col = [bits[p][i] for p in range(1, 5)]
            once.append(z3.And(z3.Or(col), *[z3.Not(z3.And(col[a], col[b])) for a in range(4) for b in range(a + 1, 4)]))
        # each hand has 13 cards: the cards at 13 consecutive positions of a permutation
        thirteen = []
        for p in range(1, 5):
            s = h.attrs[SEATS[p]]
            thirteen.append(s.n == 13 if isinstance(s, CardSet) else z3.BoolVal(len(s) == 13))
        return dict(outcome='dealt', cex=cex,
                    checks=[('the shuffled list is the full pack of 52 distinct cards', seen['pack']),
                            ('every card of the pack is in exactly one hand (disjoint, covering)', z3.And(once)),
                            ('every hand has 13 cards', z3.And(thirteen))])

    def setup(eng):
        eng.timeout_ms = 900000
    return hx.explore_case(path, setup=setup)


# --------------------------------------------------------------------------
def all_shapes():
    return [(a, b, c, 13 - a - b - c) for a in range(14) for b in range(14 - a) for c in range(14 - a - b)]


def cases(tier):
    shapes = all_shapes()
    if tier != 'thorough':
        rnd = random.Random(common.SEED)
        must = [(13, 0, 0, 0), (0, 13, 0, 0), (0, 0, 13, 0), (0, 0, 0, 13), (4, 3, 3, 3), (3, 4, 3, 3), (3, 3, 4, 3), (3, 3, 3, 4),
                (5, 4, 4, 0), (0, 0, 6, 7), (7, 6, 0, 0), (1, 0, 12, 0)]
        shapes = must + rnd.sample([s for s in shapes if s not in must], 36)
    cs = [(case_binary, 'binary tuples', dict(which='tuple')), (case_binary, 'numpy vectors', dict(which='numpy')),
          (case_json, 'JSON card lists', {}), (case_pbn_empty, 'PBN empty hand', {}), (case_dealer, 'random dealer', {})]
    n = 16 if tier != 'thorough' else 56
    chunks = [shapes[i::n] for i in range(n)]
    for i, ch in enumerate(chunks):
        if ch:
            cs.append((case_pbn_hand, f'PBN hand codec, shapes chunk {i} ({len(ch)} shapes)', dict(shapes=ch)))
    for pat in itertools.product((True, False), repeat=4):
        cs.append((case_pbn_deal, f'PBN deal line, hands present {pat}', dict(pattern=pat)))
    return cs


META = dict(
    level='model_checking',
    bounds=lambda tier: {'binary/numpy/json': 'every deal and partial deal: four pairwise disjoint subsets of the 52 cards, any sizes',
                         'pbn hand codec': ('all 560 suit shapes of a 13-card hand' if tier == 'thorough' else '48 suit shapes (12 fixed incl. single-suit and 4-3-3-3, 36 seeded)') +
                                           ', ranks symbolic inside each shape; the empty hand',
                         'pbn deal line': 'all four first seats (symbolic), all 16 present/empty patterns, hand codec replaced by its contract (injective 16-character tokens over the PBN alphabet)',
                         'dealer': 'every permutation of the pack (bijection as map + inverse)'},
    stubs=['random.shuffle(list) = arbitrary permutation', 'in the deal-line case Hands._convert_hand_to_pbn/_hand_parser are replaced by their contract (discharged by the hand-codec cases)',
           'numpy zeros/where/fancy-index assignment modelled on 52-term vectors'],
    assumptions=['a Set[Card] is 52 Booleans + a maintained size term', 'iteration order of a set does not matter to the code under test (the model iterates in universe order; sorted() uses the real Card.__lt__)',
                 'Card.rank_int_to_str / rank_str_to_int are pure and summarised as one ite term'],
    rule='feasible paths of the encoders/decoders on symbolic deals; for the PBN hand codec one exploration per suit shape',
    explanation='encode then decode executed symbolically from the real source; identity and canonical form are z3 queries per path',
    required_outcomes=['tuple', 'numpy', 'json', 'hand', 'empty hand', 'deal line', 'dealt'],
)


def validate(tier):
    """translator validation: the interpreter in concrete mode against CPython on the functions this check encodes"""
    from engine import validate as v
    return v.run(['converters', 'regex_model'], tier)
