"""C20 — admission seats one conforming client per seat and turns the others away.

(1) SYMEX one step: PlayerThread._connect from an ARBITRARY seat table (each seat free or taken; partners share a team),
    request (team text, seat, protocol version 0..999) symbolic and BUILT BY THE REAL Client._connect; client and seat
    thread are co-simulated message by message (each side's real code produces what the other side reads).
(2) Sessions with rejected attempts interleaved with the four bundled clients: recorded from the real Server.run,
    all interleavings checked for deadlock (engine/po.py), seat-table accesses checked for races, outcomes checked
    (one client per seat, partners share a team, rejected attempts got ERROR and a closed connection, first board starts).
"""
import json
import time

import z3

from engine import common, hx, po, sstr, symx
from engine.symx import SEnum, SInt, SObj, SStr, Sym, zenum, zint
from harness import proto


def case_connect(lens):
    """lens = (len of requested team, len of NS team, len of EW team)"""
    from bridge_env import Player
    from bridge_env.network_bridge.client import Client
    from bridge_env.network_bridge.server import PlayerThread
    Lr, Lns, Lew = lens

    def path(eng):
        seat, version = z3.Int('seat'), z3.Int('version')
        eng.assume(z3.And(1 <= seat, seat <= 4, 0 <= version, version <= 999))
        team = proto.free_text(eng, 'team', Lr)
        t_ns, t_ew = proto.free_text(eng, 'ns', Lns), proto.free_text(eng, 'ew', Lew)
        present = {p: eng.decide(z3.Bool(f'seated_{p}')) for p in range(1, 5)}
        table = {Player(p): ((t_ns if p % 2 else t_ew) if present[p] else None) for p in range(1, 5)}
        before = dict(table)
        cw, sw = proto.Wire(), proto.Wire()
        wires = {}
        proto.install(eng, wires)
        client = SObj(Client, dict(player=SEnum(Player, seat), team_name=team, PROTOCOL_VERSION=SInt(version),
                                   opponent_team_name=None, ip_address='x', port=0))
        ev = proto.event()
        seen_at_set = []
        eng.attr_stubs[('FakeEvent', 'set')] = lambda e, o: symx.SymCallable(
            lambda: (o.attrs['log'].append('set'), seen_at_set.append({p: table[Player(p)] for p in range(1, 5)})))

        class FakeBarrier:
            pass
        arrivals = []

        def barrier_wait():
            arrivals.append(1)
            # when the barrier opens all four seats are taken (that is what the main thread waited for): the free seats
            # are filled by arbitrary conforming partners
            for p in range(1, 5):
                if table[Player(p)] is None:
                    mate = table[Player((p + 1) % 4 + 1)]
                    table[Player(p)] = mate if mate is not None else (t_ns if p % 2 else t_ew)
        eng.attr_stubs[('FakeBarrier', 'wait')] = lambda e, o: symx.SymCallable(barrier_wait)
        thread = SObj(PlayerThread, dict(connection=proto.conn(sw), connection_socket=None, event_sync=SObj(FakeBarrier, {}),
                                         event_thread=ev, team_names=table, name='Thread-1'))
        wires[id(client)] = cw
        wires[id(thread)] = sw

        def cex(m):
            tx = lambda s: None if s is None else ''.join(chr(hx.mval(m, c) if not isinstance(c, int) else c) for c in sstr.chars_of(s))
            return {'kind': 'connect', 'seat': hx.mval(m, seat), 'version': hx.mval(m, version), 'team': tx(team),
                    'table': {str(p): tx(before[Player(p)]) for p in range(1, 5)}}
        # co-simulation by re-execution: each side is re-run from the start with everything the other side has produced
        server_in, client_in = [], []
        c_res = s_res = ('blocked', None)
        for rnd in range(6):
            cw2 = proto.Wire(client_in)
            wires[id(client)] = cw2
            client.attrs['opponent_team_name'] = None
            c_res = proto.run_until_blocked(eng, Client._connect, [client])
            new_server_in = list(cw2.outbox)
            for p in range(1, 5):
                table[Player(p)] = before[Player(p)]
            del arrivals[:]
            del seen_at_set[:]
            ev.attrs['log'][:] = []
            sw2 = proto.Wire(new_server_in)
            wires[id(thread)] = sw2
            thread.attrs['connection'] = proto.conn(sw2)
            s_res = proto.run_until_blocked(eng, PlayerThread._connect, [thread])
            new_client_in = list(sw2.outbox)
            if len(new_server_in) == len(server_in) and len(new_client_in) == len(client_in):
                break
            server_in, client_in = new_server_in, new_client_in
        sw_final = wires[id(thread)]
        cw_final = wires[id(client)]
        chk = []
        taken = present
        # the decision the property prescribes
        seat_taken = z3.Or([z3.And(seat == p, z3.BoolVal(taken[p])) for p in range(1, 5)])
        mate_diff = []
        for p in range(1, 5):
            mate = (p + 1) % 4 + 1
            if taken[mate]:
                e = sstr.eq(before[Player(mate)], team)
                mate_diff.append(z3.And(seat == p, z3.Not(e) if not isinstance(e, bool) else z3.BoolVal(not e)))
        refuse = z3.Or(version != 18, seat_taken, z3.Or(mate_diff) if mate_diff else z3.BoolVal(False))
        if s_res[0] == 'raise':
            return dict(outcome='server raised', cex=cex, checks=[(f'the seat thread does not crash on a well-formed request ({s_res[1]!r})', False)])
        unchanged = all(table[Player(p)] is before[Player(p)] for p in range(1, 5))
        if s_res[0] == 'ret' and s_res[1] is False:
            out = sw_final.outbox
            err = len(out) == 1 and not isinstance(sstr.startswith(out[0], 'ERROR'), bool) or \
                (len(out) == 1 and sstr.startswith(out[0], 'ERROR') is True)
            if len(out) == 1:
                e = sstr.startswith(out[0], 'ERROR')
                err = e
            else:
                err = False
            chk += [('a request is refused only for a wrong version, a taken seat or a team different from the seated partner\'s', refuse),
                    ('the refusal is answered with exactly one ERROR line', err),
                    ('the refused connection is closed', sw_final.closed),
                    ('the admission event is set (the server keeps accepting)', ev.attrs['log'] == ['set']),
                    ('the players already seated are not disturbed (seat table unchanged)', unchanged)]
            return dict(outcome='refused', cex=cex, checks=chk)
        if s_res[0] == 'ret' and s_res[1] is True:
            chk.append(('a request is accepted only with version 18, a free seat and the partner\'s team', z3.Not(refuse)))
            only = True
            for p in range(1, 5):
                if taken[p] and table[Player(p)] is not before[Player(p)]:
                    only = False
            chk.append(('seated players keep their seats and teams', only))
            mine = z3.BoolVal(False)
            for p in range(1, 5):
                v = table[Player(p)]
                e = sstr.eq(v, team) if v is not None else False
                mine = z3.Or(mine, z3.And(seat == p, e if not isinstance(e, bool) else z3.BoolVal(e)))
            chk.append(('the requested seat now holds the requested team', mine))
            written = z3.BoolVal(False)
            if seen_at_set:
                for p in range(1, 5):
                    v = seen_at_set[0][p]
                    e = sstr.eq(v, team) if v is not None else False
                    written = z3.Or(written, z3.And(seat == p, e if not isinstance(e, bool) else z3.BoolVal(e)))
            chk.append(('the admission event is set, and only after the seat has been entered in the table', written))
            chk.append(('the client accepts the whole admission dialogue', c_res[0] == 'ret'))
            if c_res[0] == 'ret':
                opp = client.attrs['opponent_team_name']
                want = z3.BoolVal(False)
                for p in range(1, 5):
                    other = table[Player(p % 4 + 1)]
                    e = sstr.eq(opp, other) if (opp is not None and other is not None) else False
                    want = z3.Or(want, z3.And(seat == p, e if not isinstance(e, bool) else z3.BoolVal(e)))
                chk.append(('the client is told both team names correctly (its own accepted, the opponents\' recorded)', want))
            chk.append(('connection stays open', not sw_final.closed))
            return dict(outcome='accepted', cex=cex, checks=chk)
        return dict(outcome='stuck', cex=cex, checks=[(f'the admission dialogue completes (client {c_res[0]}, seat thread {s_res[0]})', False)])
    return hx.explore_case(path, dict(max_paths=20000))


def analyse_session(name, seed):
    from harness import sessions
    out = dict(session=name, problems=[], facts=[], stats={})
    r = sessions.record(name, seed)
    if not r.get('completed'):
        out['natural_stall'] = True
        out['blocked_at'] = r.get('blocked_at')
        out['clients'] = r.get('clients')
        return out, dict(schedule=po.recorded_schedule(r['traces']), cut=r.get('blocked_at'))
    r2 = sessions.record(name, seed, perturb=seed * 5 + 1)
    if not r2.get('completed'):
        out['natural_stall'] = True
        out['blocked_at'] = r2.get('blocked_at')
        out['clients'] = r2.get('clients')
        return out, dict(schedule=po.recorded_schedule(r2['traces']), cut=r2.get('blocked_at'))
    if po.signature(r['traces']) != po.signature(r2['traces']):
        out['problems'].append('per-thread traces differ between two schedules')
    out['problems'] += po.structure_checks(r['traces'])
    boards, mk = sessions.session(name, seed)
    specs = mk()
    facts = out['facts']
    seated = {}
    for i, spec in enumerate(specs):
        res = r['clients'].get(f'cl{i}')
        if spec.get('raw'):
            ok = isinstance(res, str) and res.startswith("raw: 'ERROR") or (isinstance(res, str) and res.startswith('raw: "ERROR')) or \
                (isinstance(res, str) and res.startswith("raw: \'ERROR"))
            text = res[5:] if isinstance(res, str) else ''
            if 'ERROR' not in text[:8] or text.count('\\r\\n') != 1:
                facts.append(f'invalid request {spec["request"]} was answered {res!r} (expected one ERROR line, then close)')
            if not r['transcripts'][f'conn{i}']['server_closed']:
                facts.append(f'connection of invalid request {spec["request"]} was not closed')
        else:
            if res != 'End of session':
                facts.append(f'bundled client {spec["seat"]} ended with {res!r}')
            seated[spec['seat'].name] = spec['team']
    writes = [(t, o['key'], o.get('value')) for t, ops in r['traces'].items() for o in ops if o['kind'] == 'tn_write']
    final = {}
    for t, k, v in writes:
        if k in final:
            facts.append(f'seat {k} was written twice in the seat table')
        final[k] = v
    if final != seated:
        facts.append(f'seat table {final} is not one bundled client per seat {seated}')
    try:
        logs = json.loads(r['log_text'])['logs']
        if len(logs) != len(boards):
            facts.append('the first board was not played and logged')
        elif logs[0]['players'] != {k: seated[k] for k in 'NESW'}:
            facts.append(f'log players {logs[0]["players"]} are not the seated teams')
    except Exception as e:
        facts.append(f'log unparseable: {e!r}')
    for i, spec in enumerate(specs):
        if not spec.get('raw'):
            sent = r['transcripts'][f'conn{i}']['server_sent']
            teams = [x for x in sent if x.startswith('Teams')]
            want = f'Teams : N/S : "{seated["N"]}" E/W : "{seated["E"]}"\r\n'
            if teams != [want]:
                facts.append(f'{spec["seat"]} was told {teams}, expected {want!r}')
    P = po.PO(r['traces'])
    res, m, dt = P.check(P.completion_query())
    out['completion_twin'] = res
    res, m, dt = P.check(P.deadlock_query())
    out['deadlock'] = res
    out['stats']['deadlock_s'] = round(dt, 2)
    model = None
    if res == 'sat':
        sch, cut = P.schedule_from(m)
        model = dict(schedule=sch, cut=P.describe_cut(cut))
    # race on the seat table: can any recorded write change sides with respect to a read window of the main thread
    # (after event_thread.clear() up to the next accept / barrier) or to a read of another seat thread?
    main = P.tr['main']
    windows = []
    for j, o in enumerate(main):
        if o['kind'] == 'ev_clear' and j + 1 < len(main):
            windows.append((o, main[j + 1]))
    wr = [o for t, ops in P.tr.items() for o in ops if o['kind'] == 'tn_write']
    rd = [o for t, ops in P.tr.items() for o in ops if o['kind'] == 'tn_read']
    alts = []
    for w in wr:
        for lo, hi in windows:
            if w['seq'] < lo['seq']:
                alts.append(z3.And(P.ex(w), P.ex(lo), P.o(w) > P.o(lo)))       # write slips into / behind the window
            else:
                alts.append(z3.And(P.ex(w), P.ex(hi), P.o(w) < P.o(hi)))       # write slips in front of the window end
        for a in rd:
            if a['thread'] == w['thread']:
                continue
            if w['seq'] < a['seq']:
                alts.append(z3.And(P.ex(w), P.ex(a), P.o(a) < P.o(w)))
            else:
                alts.append(z3.And(P.ex(w), P.ex(a), P.o(w) < P.o(a)))
    res, m2, dt = P.check([z3.Or(alts)] if alts else [z3.BoolVal(False)])
    out['race'] = res
    out['race_pairs'] = len(alts)
    out['stats']['race_s'] = round(dt, 2)
    race_model = None
    if res == 'sat':
        sch, cut = P.schedule_from(m2)
        out['race_schedule_len'] = len(sch)
        race_model = dict(schedule=sch, cut=P.describe_cut(cut))
    out['_race_model'] = race_model
    last_put = [o for o in r['traces']['main'] if o['kind'] == 'q_put'][-1]
    P2 = po.PO(r['traces'], drop=('main', last_put['idx']))
    out['seeded_bug_twin'] = P2.check(P2.deadlock_query())[0]
    out['ops'] = sum(len(v) for v in P.tr.values())
    return out, model


def _session_case(name):
    common.setup_path()
    res = common.CaseResult(name)
    out, model = analyse_session(name, common.SEED)
    res.stats = dict(paths=1, queries=4, solver_s=sum(out.get('stats', {}).values()), steps=out.get('ops', 0))
    res.samples = [{k: v for k, v in out.items() if k in ('session', 'deadlock', 'race', 'race_pairs', 'completion_twin', 'seeded_bug_twin', 'ops')}]
    res.outcomes = {'admission session analysed': 1}
    res.detail = json.dumps({k: v for k, v in out.items() if not k.startswith('_')}, default=str)[:1200]
    if out.get('natural_stall'):
        res.cex.append({'kind': 'session', 'what': 'schedule', 'session': name, 'seed': common.SEED, 'schedule': model['schedule'],
                        'cut': model['cut'], 'found': 'the recorded run itself stalled; its own operation order is the schedule'})
        res.status = 'cex'
    elif out['problems']:
        res.status = 'inconclusive'
        res.detail = 'trace validation failed: ' + '; '.join(out['problems'][:3])
    elif out['facts']:
        res.cex.append({'kind': 'session', 'what': 'facts', 'session': name, 'seed': common.SEED, 'facts': out['facts']})
        res.status = 'cex'
    elif out['completion_twin'] != 'sat' or out['seeded_bug_twin'] != 'sat':
        res.status = 'inconclusive'
        res.detail = f'vacuity twins failed: {out["completion_twin"]} {out["seeded_bug_twin"]}'
    elif out['deadlock'] == 'sat':
        res.cex.append({'kind': 'session', 'what': 'schedule', 'session': name, 'seed': common.SEED, 'schedule': model['schedule'], 'cut': model['cut']})
        res.status = 'cex'
    elif out['deadlock'] != 'unsat' or out['race'] not in ('sat', 'unsat'):
        res.status = 'inconclusive'
    elif out['race'] == 'sat':
        # a conflicting access to the seat table can change sides: the racy order is forced on the real threads; it is a
        # violation only if the real session then fails (otherwise the replay does not reproduce => inconclusive)
        rm = out['_race_model']
        res.cex.append({'kind': 'session', 'what': 'schedule', 'session': name, 'seed': common.SEED, 'schedule': rm['schedule'],
                        'cut': rm['cut'], 'found': 'seat-table race: a write can be reordered with respect to a conflicting read'})
        res.status = 'cex'
    return res


def cases(tier):
    L = [(1, 1, 1), (2, 2, 1), (0, 0, 2), (2, 1, 2), (1, 1, 0)] if tier != 'thorough' else \
        [(a, b, c) for a in (0, 1, 2, 3) for b in (0, 1, 3) for c in (0, 1, 3)]
    cs = [(case_connect, f'one admission step, text lengths request/NS/EW = {l}', dict(lens=l)) for l in L]
    for n in (('A1',) if tier != 'thorough' else ('A1', 'A2')):
        cs.append((_session_case, f'admission session {n}', dict(name=n)))
    return cs


META = dict(
    level='model_checking',
    bounds=lambda tier: {'sessions': 'A1: N, bad version E, E, duplicate N, S with a foreign team, S, version 180 W, W; (thorough) A2: bad version W, W, S, upper-case duplicate W, E, N with a foreign team, duplicate E, N - all interleavings of the recorded traces; one board',
                         'one step': 'seat table arbitrary (2^4 taken/free patterns, partners share a team), seat 1..4, version 0..999, team texts of the listed lengths with arbitrary code points except " CR LF'},
    stubs=['message-level socket (send_message/receive_message = outbox/scripted inbox; framing is C19)', 'Barrier.wait: returns after filling the free seats with arbitrary conforming partners',
           'Event.set/clear/wait recorded'],
    assumptions=['admitted clients conform (they answer "ready for teams" and "ready to start")', 'regular expressions by the sre-semantics model; IGNORECASE on symbolic characters is ASCII-only'],
    rule='feasible paths of the co-simulated admission dialogue (real Client._connect against real PlayerThread._connect)',
    explanation='both ends executed symbolically from source, message by message',
    required_outcomes=['refused', 'accepted', 'admission session analysed'],
)


def validate(tier):
    """translator validation: the interpreter in concrete mode against CPython on the functions this check encodes"""
    from engine import validate as v
    return v.run(['messages', 'regex_model'], tier)
