"""Shared machinery of C01, C02, C03 (the auction).

Encoded from source (re-read at every run): BiddingPhase.__init__/take_bid/has_done/contract, Bid.idx/suit/level,
Player.next_player/left/pair/is_partner, Contract.__post_init__.

H1  one inductive step of take_bid from an ARBITRARY state that satisfies the representation invariant Inv
    (history = z3 Array + symbolic length, so auctions of every length are covered), for a symbolic call 1..38.
H1e the same from an arbitrary state after the end (active player None).
H0  base case: the real constructor establishes Inv.
H2  bounded model checking from the real constructor: K symbolic calls, every prefix compared with an oracle
    that reads the Laws off the EXPLICIT history (scan for the last non-pass call, maximum bid, first member of
    the declaring side to name the denomination) - independent of the summary state used in H1.

Counterexamples to induction are not believed as they are: the solver is asked for a call sequence from the
dealer (reference machine unrolled N <= SYNTH_MAX steps) that reaches the offending pre-state, and the replayer
drives the real object along that sequence.
"""
import z3

from engine import hx, symx
from engine.symx import SArr, SBool, SEnum, SInt, SList, SObj, Sym, zbool, zenum, zint

PFX = '_BiddingPhase__'
PROPS_NOW = set()
SYNTH_MAX = 12
PASS, X, XX = 36, 37, 38


def side(p):
    """1 = NS (N, S), 2 = EW"""
    return z3.If(p % 2 == 1, 1, 2)


def suit_of(b):
    return (b - 1) % 5 + 1


def seat_at(d, i):
    return (d - 1 + i) % 4 + 1


# --------------------------------------------------------------------------
# summary machine Σ (reference)
# --------------------------------------------------------------------------
def legal(S, c):
    a, lb, lbid, x, xx = S['a'], S['lb'], S['lbid'], S['x'], S['xx']
    return z3.Or(c == PASS,
                 z3.And(c >= 1, c <= 35, c > lbid),
                 z3.And(c == X, lb != 0, z3.Not(x), z3.Not(xx), a % 2 != lb % 2),
                 z3.And(c == XX, x, z3.Not(xx), a % 2 == lb % 2))


def ends(S, c):
    return z3.And(c == PASS, z3.Or(z3.And(S['lbid'] != 0, S['tp'] == 2), z3.And(S['lbid'] == 0, S['n'] == 3)))


def ref_step(S, c):
    isbid = c <= 35
    a = S['a']
    T = dict(S)
    T['a'] = z3.If(ends(S, c), 0, a % 4 + 1)
    T['lb'] = z3.If(isbid, a, S['lb'])
    T['lbid'] = z3.If(isbid, c, S['lbid'])
    T['x'] = z3.If(isbid, False, z3.If(c == X, True, S['x']))
    T['xx'] = z3.If(isbid, False, z3.If(c == XX, True, S['xx']))
    T['tp'] = z3.If(c == PASS, S['tp'] + 1, 0)
    T['n'] = S['n'] + 1
    T['dc'] = {(pr, s): z3.If(z3.And(isbid, side(a) == pr, suit_of(c) == s, v == 0), a, v)
               for (pr, s), v in S['dc'].items()}
    return T


def ref_init(d):
    return dict(a=d, lb=z3.IntVal(0), lbid=z3.IntVal(0), x=z3.BoolVal(False), xx=z3.BoolVal(False),
                tp=z3.IntVal(0), n=z3.IntVal(0), dc={(pr, s): z3.IntVal(0) for pr in (1, 2) for s in range(1, 6)})


def avail_ref(S):
    """the 38-slot vector the Laws prescribe in summary state S (not ended)"""
    return [z3.If(legal(S, z3.IntVal(i + 1)), 1, 0) for i in range(38)]


# --------------------------------------------------------------------------
# symbolic pre-state and its invariant
# --------------------------------------------------------------------------
def fresh_state(eng, ended=False):
    from bridge_env import Bid, BiddingPhase, Pair, Player, Suit, Vul
    I = z3.Int
    st = dict(d=I('dealer'), v=I('vul'), a=I('active'), lb=I('last_bidder'), lbid=I('last_bid'),
              x=z3.Bool('called_x'), xx=z3.Bool('called_xx'), n=I('n'), H=z3.Array('H', z3.IntSort(), z3.IntSort()),
              tp=I('trailing_passes'),
              np={p: I(f'n_{p}') for p in range(1, 5)},
              Hp={p: z3.Array(f'H_{p}', z3.IntSort(), z3.IntSort()) for p in range(1, 5)},
              dc={(pr, s): I(f'dc_{pr}_{s}') for pr in (1, 2) for s in range(1, 6)},
              av=[I(f'av_{i}') for i in range(38)])
    obj = SObj(BiddingPhase, {
        PFX + 'dealer': SEnum(Player, st['d']), PFX + 'vul': SEnum(Vul, st['v']),
        PFX + 'active_player': SEnum(Player, st['a'], opt=True),
        PFX + 'last_bidder': SEnum(Player, st['lb'], opt=True),
        PFX + 'last_bid': SEnum(Bid, st['lbid'], opt=True),
        PFX + 'called_x': SBool(st['x']), PFX + 'called_xx': SBool(st['xx']),
        PFX + 'bid_history': SList(Bid, st['H'], st['n']),
        PFX + 'players_bid_history': {Player(p): SList(Bid, st['Hp'][p], st['np'][p]) for p in range(1, 5)},
        PFX + 'declarer_check': {Pair(pr): {Suit(s): SEnum(Player, st['dc'][(pr, s)], opt=True) for s in range(1, 6)}
                                 for pr in (1, 2)},
        PFX + 'available_bid': SArr(list(st['av'])),
    })
    return obj, st


def domain(st):
    """type-level constraints only (what any object of the class satisfies)"""
    c = [1 <= st['d'], st['d'] <= 4, 1 <= st['v'], st['v'] <= 4, 0 <= st['a'], st['a'] <= 4,
         0 <= st['lb'], st['lb'] <= 4, 0 <= st['lbid'], st['lbid'] <= 35, st['n'] >= 0]
    c += [z3.And(st['np'][p] >= 0) for p in range(1, 5)]
    c += [z3.And(0 <= v, v <= 4) for v in st['dc'].values()]
    c += [z3.Or(a == 0, a == 1) for a in st['av']]
    return c


def inv(st, tp):
    """labelled components of the representation invariant of a live auction; st: dict of z3 terms"""
    d, a, lb, lbid, x, xx, n, H = (st[k] for k in ('d', 'a', 'lb', 'lbid', 'x', 'xx', 'n', 'H'))
    S = dict(a=a, lb=lb, lbid=lbid, x=x, xx=xx, tp=tp, n=n)
    out = {}
    out['turn = dealer + number of calls'] = z3.And(n >= 0, a == seat_at(d, n))
    out['last bid/bidder/flags well-formed'] = z3.And(
        0 <= lbid, lbid <= 35, 0 <= lb, lb <= 4, (lbid == 0) == (lb == 0),
        z3.Implies(lbid == 0, z3.And(z3.Not(x), z3.Not(xx))), z3.Implies(xx, x))
    av = avail_ref(S)
    out['available vector = legal set'] = z3.And([st['av'][i] == av[i] for i in range(38)])
    sel = (lambda i: z3.Select(H, i)) if not isinstance(H, list) else None
    tail = [0 <= tp, tp <= 3, tp <= n,
            z3.Implies(lbid == 0, tp == n),
            z3.Implies(lbid != 0, z3.And(tp <= 2, n > tp))]
    if sel is not None:
        for i in range(3):
            tail.append(z3.Implies(tp > i, sel(n - 1 - i) == PASS))
        lnp = sel(n - tp - 1)
        caller = seat_at(d, n - tp - 1)
        tail.append(z3.Implies(lbid != 0, z3.And(
            lnp == z3.If(xx, XX, z3.If(x, X, lbid)),
            z3.If(z3.And(x, z3.Not(xx)), caller % 2 != lb % 2, z3.If(xx, caller % 2 == lb % 2, caller == lb)))))
    out['history tail = trailing passes after the last non-pass call'] = z3.And(tail)
    out['per-seat list lengths = turns taken'] = z3.And(
        [st['np'][p] == (n + 3 - ((p - d) % 4)) / 4 for p in range(1, 5)])
    dcc = []
    for (pr, s), v in st['dc'].items():
        dcc.append(z3.Or(v == 0, z3.And(v >= 1, v <= 4, side(v) == pr)))
        dcc.append(z3.Implies(v != 0, lbid >= s))
        dcc.append(z3.Implies(z3.And(lbid != 0, side(lb) == pr, suit_of(lbid) == s), v != 0))
    out['first-to-name table well-formed'] = z3.And(dcc)
    return out


INV_TAGS = {
    'turn = dealer + number of calls': {'C01', 'C02'},
    'last bid/bidder/flags well-formed': {'C01', 'C02', 'C03'},
    'available vector = legal set': {'C01'},
    'history tail = trailing passes after the last non-pass call': {'C02'},
    'per-seat list lengths = turns taken': {'C02'},
    'first-to-name table well-formed': {'C03'},
}


# --------------------------------------------------------------------------
# reading the (post-)state of the interpreted object
# --------------------------------------------------------------------------
PUBLIC = ('dealer', 'vul', 'active_player', 'bid_history', 'players_bid_history', 'available_bid')


def public(eng, obj, name):
    """the value of a public accessor of the interpreted object (the real property is executed)"""
    from bridge_env import BiddingPhase
    return symx.Frame(eng, BiddingPhase.take_bid, {}).getattr(obj, name)


def touch_public(eng, obj):
    """query - step - query: the accessors are also read BEFORE the step, so that an accessor which caches or consumes
    what it returns is noticed by the read after the step"""
    for name in PUBLIC:
        public(eng, obj, name)


def read_state(obj, eng=None):
    """with eng: dealer, vulnerability, turn, histories and the availability vector are read through the public
    accessors (what a user observes); the fields without an accessor are read directly"""
    from bridge_env import Pair, Player, Suit
    A = obj.attrs
    if eng is not None:
        A = dict(A)
        for name in PUBLIC:
            A[PFX + name] = public(eng, obj, name)
    # private fields without an accessor may be absent in an implementation that keeps its summary differently: they read as
    # their initial values and are listed in st['missing'] (the harnesses that start from the constructor do not need them;
    # the inductive step does and reports 'not applicable')
    missing = []

    def priv(name, default):
        if PFX + name in A:
            return A[PFX + name]
        missing.append(name)
        return default
    st = dict(d=zenum(A[PFX + 'dealer']), v=zenum(A[PFX + 'vul']), a=zenum(A[PFX + 'active_player']),
              lb=zenum(priv('last_bidder', None)), lbid=zenum(priv('last_bid', None)),
              x=zbool(priv('called_x', False)), xx=zbool(priv('called_xx', False)), missing=missing)
    h = A[PFX + 'bid_history']
    if isinstance(h, SList):
        st['H'], st['n'] = h.arr, h.n
    else:
        st['H'], st['n'] = [zenum(b) for b in h], z3.IntVal(len(h))
    st['np'], st['Hp'] = {}, {}
    for p in range(1, 5):
        l = A[PFX + 'players_bid_history'][Player(p)]
        if isinstance(l, SList):
            st['Hp'][p], st['np'][p] = l.arr, l.n
        else:
            st['Hp'][p], st['np'][p] = [zenum(b) for b in l], z3.IntVal(len(l))
    dct = priv('declarer_check', {Pair(pr): {Suit(s): None for s in range(1, 6)} for pr in (1, 2)})
    st['dc'] = {(pr, s): zenum(dct[Pair(pr)][Suit(s)]) for pr in (1, 2) for s in range(1, 6)}
    av = A[PFX + 'available_bid']
    if not isinstance(av, SArr):
        raise symx.Unsupported('available_bid is not a 38-slot vector model')
    st['av'] = [zint(x) for x in av.items]
    return st


def snapshot(st):
    s = dict(st)
    s['np'], s['Hp'], s['dc'], s['av'] = dict(st['np']), dict(st['Hp']), dict(st['dc']), list(st['av'])
    return s


def unchanged(pre, post):
    """labelled equalities: every field of the object identical"""
    out = {}
    out['history unchanged'] = z3.And(post['n'] == pre['n'], _arr_eq(post['H'], pre['H']))
    out['turn unchanged'] = post['a'] == pre['a']
    out['available vector unchanged'] = z3.And([a == b for a, b in zip(post['av'], pre['av'])]) \
        if len(post['av']) == len(pre['av']) else z3.BoolVal(False)
    out['last bid, last bidder, doubled/redoubled flags unchanged'] = z3.And(
        post['lb'] == pre['lb'], post['lbid'] == pre['lbid'], post['x'] == pre['x'], post['xx'] == pre['xx'])
    out['per-seat lists unchanged'] = z3.And([z3.And(post['np'][p] == pre['np'][p], _arr_eq(post['Hp'][p], pre['Hp'][p]))
                                              for p in range(1, 5)])
    out['first-to-name table unchanged'] = z3.And([post['dc'][k] == pre['dc'][k] for k in pre['dc']])
    out['dealer and vulnerability unchanged'] = z3.And(post['d'] == pre['d'], post['v'] == pre['v'])
    return out


# a rejected call is a step of every property's induction: whatever it leaves behind is seen by the later calls
REJECT_TAGS = {'first-to-name table unchanged': {'C01', 'C03'},
               'last bid, last bidder, doubled/redoubled flags unchanged': {'C01', 'C03'},
               'history unchanged': {'C01', 'C02'}, 'turn unchanged': {'C01', 'C02'}, 'per-seat lists unchanged': {'C01', 'C02'}}


def _arr_eq(a, b):
    if isinstance(a, list) or isinstance(b, list):
        if not (isinstance(a, list) and isinstance(b, list)) or len(a) != len(b):
            return z3.BoolVal(False)
        return z3.And([x == y for x, y in zip(a, b)]) if a else z3.BoolVal(True)
    return a == b


def appended(pre_arr, pre_n, post_arr, post_n, c):
    return z3.And(post_n == pre_n + 1, post_arr == z3.Store(pre_arr, pre_n, c))


# --------------------------------------------------------------------------
# contract() on the interpreted object
# --------------------------------------------------------------------------
def read_contract(eng, obj):
    from bridge_env import BiddingPhase
    try:
        c = eng.call_function(BiddingPhase.contract, [obj], {})
    except symx.RaiseEx as e:
        return 'raise', e.exc
    return 'ret', c


def contract_fields(c):
    g = (lambda k: c.attrs[k]) if isinstance(c, SObj) else (lambda k: getattr(c, k))
    return dict(final_bid=zenum(g('final_bid')), x=zbool(g('x')), xx=zbool(g('xx')), vul=zenum(g('vul')),
                declarer=zenum(g('declarer')))


def status(x, xx):
    return z3.If(xx, 2, z3.If(x, 1, 0))


# --------------------------------------------------------------------------
# synthesis of a call sequence reaching a pre-state (reference machine unrolled)
# --------------------------------------------------------------------------
def synthesize(eng, neg, st, tp, call, extra=None):
    """returns dict(dealer, vul, history, call) or None"""
    for N in range(0, SYNTH_MAX + 1):
        cs = [z3.Int(f'syn_c{i}') for i in range(N)]
        S = ref_init(st['d'])
        cons = []
        for i in range(N):
            cons += [cs[i] >= 1, cs[i] <= 38, legal(S, cs[i]), z3.Not(ends(S, cs[i]))]
            S = ref_step(S, cs[i])
        cons += [st['n'] == N, st['a'] == S['a'], st['lb'] == S['lb'], st['lbid'] == S['lbid'], st['x'] == S['x'],
                 st['xx'] == S['xx'], tp == S['tp']]
        cons += [st['dc'][k] == S['dc'][k] for k in st['dc']]
        for i in range(N):
            cons.append(z3.Select(st['H'], i) == cs[i])
            for p in range(1, 5):
                cons.append(z3.Implies(seat_at(st['d'], i) == p, z3.Select(st['Hp'][p], i // 4) == cs[i]))
        r = eng.check(neg, *cons)
        if r == z3.sat:
            m = eng.solver.model()
            out = {'kind': 'auction', 'props': sorted(PROPS_NOW), 'dealer': hx.mval(m, st['d']), 'vul': hx.mval(m, st['v']),
                   'history': [hx.mval(m, c) for c in cs], 'call': hx.mval(m, call)}
            if extra:
                out.update(extra(m))
            return out
    return None


# --------------------------------------------------------------------------
# H1: one step from an arbitrary live state
# --------------------------------------------------------------------------
def case_step(props):
    from bridge_env import Bid, BiddingPhase, BiddingPhaseState
    PROPS_NOW.clear()
    PROPS_NOW.update(props)

    def path(eng):
        obj, st = fresh_state(eng)
        tp = st['tp']
        call = z3.Int('call')
        eng.assume(z3.And(domain(st)))
        eng.assume(st['a'] != 0)
        eng.assume(z3.And(list(inv(st, tp).values())))
        eng.assume(z3.And(call >= 1, call <= 38))
        pre = snapshot(st)
        S = dict(a=pre['a'], lb=pre['lb'], lbid=pre['lbid'], x=pre['x'], xx=pre['xx'], tp=tp, n=pre['n'], dc=pre['dc'])
        is_legal, is_end = legal(S, call), ends(S, call)
        refine = lambda eng, neg, m: synthesize(eng, neg, pre, tp, call)
        touch_public(eng, obj)
        try:
            r = eng.call_function(BiddingPhase.take_bid, [obj, SEnum(Bid, call)], {})
        except symx.RaiseEx as e:
            if isinstance(e.exc, AttributeError) and PFX in str(e.exc):
                # the implementation keeps state in a field that the invariant of this harness does not describe: the
                # inductive step cannot quantify over it.  Not a verdict: the BMC from the real constructor still decides.
                return dict(outcome='H1 not applicable', checks=[], sample=f'unknown state field: {e.exc}')
            return dict(outcome='raise', refine=refine,
                        checks=[(f'{p}: take_bid does not raise in a live auction ({type(e.exc).__name__})', False)
                                for p in sorted(props)])
        if isinstance(r, SEnum):
            r = eng.concretize_enum(r)
        post = read_state(obj, eng)
        chk = []

        def add(tags, label, cond):
            for p in sorted(tags & props):
                chk.append((f'{p}: {label}', cond))
        if r is BiddingPhaseState.ILLEGAL:
            add({'C01'}, 'a call reported ILLEGAL is illegal under the Laws', z3.Not(is_legal))
            for label, cond in unchanged(pre, post).items():
                add(REJECT_TAGS.get(label, {'C01'}), 'rejected call: ' + label, cond)
            return dict(outcome='ILLEGAL', checks=chk, refine=refine, sample=_sample(eng, pre, call))
        T = ref_step(S, call)
        add({'C01'}, 'an accepted call is legal under the Laws', is_legal)
        add({'C02'}, 'the call is appended to the common history',
            appended(pre['H'], pre['n'], post['H'], post['n'], call))
        for p in range(1, 5):
            add({'C02'}, f'per-seat list of seat {p}: the call is appended iff it is that seat\'s turn',
                z3.If(pre['a'] == p, appended(pre['Hp'][p], pre['np'][p], post['Hp'][p], post['np'][p], call),
                      z3.And(post['np'][p] == pre['np'][p], post['Hp'][p] == pre['Hp'][p])))
        add({'C01', 'C02', 'C03'}, 'last bid / last bidder follow the reference',
            z3.And(post['lb'] == T['lb'], post['lbid'] == T['lbid']))
        add({'C01', 'C03'}, 'doubled / redoubled flags follow the reference',
            z3.And(post['x'] == T['x'], post['xx'] == T['xx']))
        add({'C03'}, 'first-to-name table follows the reference', z3.And([post['dc'][k] == T['dc'][k] for k in T['dc']]))
        add({'C03'}, 'dealer and vulnerability unchanged', z3.And(post['d'] == pre['d'], post['v'] == pre['v']))
        k, con = read_contract(eng, obj)
        if r is BiddingPhaseState.ONGOING:
            add({'C02'}, 'ONGOING only when the auction has not ended', z3.Not(is_end))
            add({'C01', 'C02'}, 'turn passes to the left-hand seat', post['a'] == pre['a'] % 4 + 1)
            add({'C02'}, 'has_done() is False', post['a'] != 0)
            for label, cond in inv(post, T['tp']).items():
                add(INV_TAGS[label], 'invariant re-established: ' + label, cond)
            add({'C03'}, 'no contract is reported before the end', k == 'ret' and con is None)
            return dict(outcome='ONGOING', checks=chk, refine=refine, sample=_sample(eng, pre, call))
        if r is BiddingPhaseState.FINISHED:
            add({'C02'}, 'FINISHED only when the auction has ended', is_end)
            add({'C02'}, 'no active player after the end', post['a'] == 0)
            if k != 'ret' or con is None:
                add({'C03'}, 'a contract is reported at the end', False)
            else:
                cf = contract_fields(con)
                dec = z3.IntVal(0)
                for (pr, s), v in pre['dc'].items():
                    dec = z3.If(z3.And(side(pre['lb']) == pr, suit_of(pre['lbid']) == s), v, dec)
                add({'C03'}, 'contract = last bid, doubling status, board vulnerability, first-to-name declarer',
                    z3.And(cf['vul'] == pre['v'],
                           z3.If(pre['lbid'] == 0,
                                 z3.And(z3.Or(cf['final_bid'] == 0, cf['final_bid'] == PASS), cf['declarer'] == 0,
                                        status(cf['x'], cf['xx']) == 0),
                                 z3.And(cf['final_bid'] == pre['lbid'], cf['declarer'] == dec,
                                        status(cf['x'], cf['xx']) == status(pre['x'], pre['xx'])))))
            return dict(outcome='FINISHED', checks=chk, refine=refine, sample=_sample(eng, pre, call))
        return dict(outcome='other', refine=refine,
                    checks=[(f'{p}: take_bid returns a BiddingPhaseState', False) for p in sorted(props)])
    return hx.explore_case(path, dict(max_paths=20000))


def _sample(eng, pre, call):
    return None


# --------------------------------------------------------------------------
# H1e: any call after the end
# --------------------------------------------------------------------------
def case_after_end(props):
    from bridge_env import Bid, BiddingPhase

    def path(eng):
        obj, st = fresh_state(eng)
        call = z3.Int('call')
        eng.assume(z3.And(domain(st)))
        eng.assume(st['a'] == 0)
        eng.assume(z3.And(call >= 1, call <= 38))
        pre = snapshot(st)

        def refine(eng, neg, m):
            # any ended auction will do for the replay: the refusal must not depend on the rest of the state
            return {'kind': 'after_end', 'props': sorted(props), 'dealer': hx.mval(m, st['d']), 'vul': hx.mval(m, st['v']),
                    'lbid': hx.mval(m, st['lbid']), 'x': hx.mval(m, st['x']), 'xx': hx.mval(m, st['xx']),
                    'call': hx.mval(m, call)}
        touch_public(eng, obj)
        try:
            eng.call_function(BiddingPhase.take_bid, [obj, SEnum(Bid, call)], {})
        except symx.RaiseEx as e:
            post = read_state(obj, eng)
            chk = [('C02: after the end: ' + l, c) for l, c in unchanged(pre, post).items()]
            chk.append(('C02: the refusal is an Exception', isinstance(e.exc, Exception)))
            return dict(outcome='refused after the end', checks=chk, refine=refine)
        return dict(outcome='accepted after the end', refine=refine,
                    checks=[('C02: a call after the end is refused with an error', False)])
    return hx.explore_case(path)


# --------------------------------------------------------------------------
# H0: the real constructor establishes the invariant
# --------------------------------------------------------------------------
def case_init(props):
    from bridge_env import BiddingPhase, Player, Vul

    def path(eng):
        d, v = z3.Ints('dealer vul')
        eng.assume(z3.And(1 <= d, d <= 4, 1 <= v, v <= 4))
        cex = lambda m: {'kind': 'auction', 'props': sorted(props), 'dealer': hx.mval(m, d), 'vul': hx.mval(m, v), 'history': [], 'call': None}
        try:
            obj = eng.construct(BiddingPhase, [SEnum(Player, d), SEnum(Vul, v)], {})
        except symx.RaiseEx:
            return dict(outcome='raise', cex=cex, checks=[(f'{p}: constructor does not raise', False) for p in sorted(props)])
        st = read_state(obj, eng)
        chk = []
        for label, cond in inv(st, z3.IntVal(0)).items():
            for p in sorted(INV_TAGS[label] & props):
                chk.append((f'{p}: constructor establishes: ' + label, cond))
        base = z3.And(st['d'] == d, st['v'] == v, st['a'] == d, st['n'] == 0, st['lbid'] == 0, st['lb'] == 0,
                      z3.And([x == 0 for x in st['dc'].values()]), z3.And([st['np'][p] == 0 for p in range(1, 5)]))
        for p in sorted(props):
            chk.append((f'{p}: constructor: dealer to call, empty history, no bid, empty table', base))
        k, con = read_contract(eng, obj)
        if 'C03' in props:
            chk.append(('C03: no contract is reported before the first call', k == 'ret' and con is None))
        return dict(outcome='constructed', checks=chk, cex=cex)
    return hx.explore_case(path)


# --------------------------------------------------------------------------
# H3: two auctions in one process do not interfere (no state shared between instances, none left behind in the module)
# --------------------------------------------------------------------------
def case_two_auctions(props, when, k=2):
    """Auction A takes k symbolic calls; auction B is constructed `when` = 'before' or 'after' them.  B must be exactly a
    freshly constructed auction (every public accessor, the private fields, no contract) and must treat one symbolic call
    as a fresh auction does."""
    from bridge_env import Bid, BiddingPhase, BiddingPhaseState, Player, Vul

    def path(eng):
        dA, vA, dB, vB = z3.Ints('dealer vul dealer_b vul_b')
        eng.assume(z3.And(1 <= dA, dA <= 4, 1 <= vA, vA <= 4, 1 <= dB, dB <= 4, 1 <= vB, vB <= 4))
        calls = [z3.Int(f'a_call{i}') for i in range(k)]
        cb = z3.Int('b_call')
        eng.assume(z3.And([z3.And(1 <= c, c <= 38) for c in calls + [cb]]))
        cex = lambda m: {'kind': 'two_auctions', 'props': sorted(props), 'when': when, 'dealer': hx.mval(m, dA), 'vul': hx.mval(m, vA),
                         'dealer_b': hx.mval(m, dB), 'vul_b': hx.mval(m, vB), 'calls': [hx.mval(m, c) for c in calls], 'b_call': hx.mval(m, cb)}
        try:
            A = eng.construct(BiddingPhase, [SEnum(Player, dA), SEnum(Vul, vA)], {})
            B = eng.construct(BiddingPhase, [SEnum(Player, dB), SEnum(Vul, vB)], {}) if when == 'before' else None
            for c in calls:
                try:
                    eng.call_function(BiddingPhase.take_bid, [A, SEnum(Bid, c)], {})
                except symx.RaiseEx:
                    break                      # A has ended: later calls are refused (C02), irrelevant here
            if B is None:
                B = eng.construct(BiddingPhase, [SEnum(Player, dB), SEnum(Vul, vB)], {})
        except symx.RaiseEx as e:
            return dict(outcome='raise', cex=cex, checks=[(f'{p}: constructing / using two auctions does not raise ({e.exc!r})', False) for p in sorted(props)])
        st = read_state(B, eng)
        chk = []
        fresh = z3.And(st['d'] == dB, st['v'] == vB, st['a'] == dB, st['n'] == 0, st['lbid'] == 0, st['lb'] == 0, z3.Not(st['x']), z3.Not(st['xx']),
                       z3.And([x == 0 for x in st['dc'].values()]), z3.And([st['np'][p] == 0 for p in range(1, 5)]),
                       z3.And([st['av'][i] == (1 if i < 36 else 0) for i in range(38)]))
        kc, con = read_contract(eng, B)
        for p in sorted(props):
            chk.append((f'{p}: a second auction ({when} the calls of the first) is exactly a fresh auction: dealer to call, empty histories, '
                        'every bid and pass available, no double, empty first-to-name table', fresh))
        if 'C03' in props:
            chk.append(('C03: the second auction reports no contract', kc == 'ret' and con is None))
        try:
            r = eng.call_function(BiddingPhase.take_bid, [B, SEnum(Bid, cb)], {})
        except symx.RaiseEx as e:
            chk.append((f'{sorted(props)[0]}: the second auction takes a first call without raising ({e.exc!r})', False))
            return dict(outcome='two auctions', checks=chk, cex=cex)
        if isinstance(r, SEnum):
            r = eng.concretize_enum(r)
        post = read_state(B, eng)
        legal = cb <= 36
        for p in sorted(props):
            chk.append((f'{p}: the opening call of the second auction is accepted iff it is a bid or a pass',
                        z3.BoolVal(r is not BiddingPhaseState.ILLEGAL) == legal))
            chk.append((f'{p}: after it the second auction holds exactly that call (or nothing if rejected)',
                        z3.If(legal, z3.And(post['n'] == 1, post['a'] == dB % 4 + 1, post['lbid'] == z3.If(cb <= 35, cb, 0)),
                              z3.And(post['n'] == 0, post['a'] == dB))))
        return dict(outcome='two auctions', checks=chk, cex=cex)
    return hx.explore_case(path, dict(max_paths=20000))


# --------------------------------------------------------------------------
# H2: BMC from the constructor against the explicit-history oracle
# --------------------------------------------------------------------------
def oracle(cs, d):
    """the Laws read off the explicit history cs[0..k-1] (z3 Ints), dealer d (python int).
    Returns dict of z3 terms for the situation AFTER these k accepted calls."""
    k = len(cs)
    maxbid = z3.IntVal(0)
    for c in cs:
        maxbid = z3.If(z3.And(c <= 35, c > maxbid), c, maxbid)
    # last non-pass call: value and whether it was made by the side of the seat now on turn (distance even)
    lnp, lnp_same = z3.IntVal(0), z3.BoolVal(False)
    for i in range(k):                      # later entries override earlier ones
        lnp = z3.If(cs[i] != PASS, cs[i], lnp)
        lnp_same = z3.If(cs[i] != PASS, z3.BoolVal((k - i) % 2 == 0), lnp_same)
    ended = z3.And(k >= 4, *[cs[k - 1 - j] == PASS for j in range(3)]) if k >= 4 else z3.BoolVal(False)

    def legal_next(c):
        return z3.Or(c == PASS, z3.And(c >= 1, c <= 35, c > maxbid),
                     z3.And(c == X, lnp >= 1, lnp <= 35, z3.Not(lnp_same)),
                     z3.And(c == XX, lnp == X, z3.Not(lnp_same)))
    # declarer: first seat of the side that made the maximum (= last) bid to name its denomination
    istar_par = z3.IntVal(0)
    for i in range(k):
        istar_par = z3.If(cs[i] == maxbid, i % 2, istar_par)
    decl = z3.IntVal(0)
    for i in reversed(range(k)):            # earlier entries override later ones
        decl = z3.If(z3.And(cs[i] <= 35, suit_of(cs[i]) == suit_of(maxbid), istar_par == i % 2, maxbid != 0),
                     (d - 1 + i) % 4 + 1, decl)
    return dict(maxbid=maxbid, lnp=lnp, ended=ended, legal_next=legal_next, declarer=decl,
                doubled=lnp == X, redoubled=lnp == XX, turn=(d - 1 + k) % 4 + 1)


def case_bmc(props, dealer, K, first=None, only=None):
    """first: classes of the first calls (P pass, B bid, O double/redouble), to split the work over processes"""
    from bridge_env import Bid, BiddingPhase, BiddingPhaseState, Player, Vul

    def path(eng):
        v = z3.Int('vul')
        eng.assume(z3.And(1 <= v, v <= 4))
        cs = [z3.Int(f'c{i}') for i in range(K)]
        for c in cs:
            eng.assume(z3.And(c >= 1, c <= 38))
        for c, cl in zip(cs, first or ()):
            eng.assume({'P': c == PASS, 'B': c <= 35, 'O': c >= X}[cl])
        if only == 'PB':
            # deep variant for the contract/declarer logic: bids and passes only (who declares does not depend on doubles) and
            # the last three calls are passes (a contract is only reported once the auction has ended)
            for c in cs:
                eng.assume(c <= PASS)
            for c in cs[-3:]:
                eng.assume(c == PASS)
        obj = eng.construct(BiddingPhase, [Player(dealer), SEnum(Vul, v)], {})
        chk = []

        def add(tags, label, cond):
            for p in sorted(tags & props):
                chk.append((f'{p}: {label}', cond))
        outcome = 'ran'
        hist = []
        for i in range(K):
            O = oracle(hist, dealer)
            pre = snapshot(read_state(obj, eng))
            try:
                r = eng.call_function(BiddingPhase.take_bid, [obj, SEnum(Bid, cs[i])], {})
            except symx.RaiseEx:
                add({'C01', 'C02', 'C03'}, f'call {i}: take_bid does not raise in a live auction', False)
                outcome = 'raise'
                break
            if isinstance(r, SEnum):
                r = eng.concretize_enum(r)
            post = read_state(obj, eng)
            if r is BiddingPhaseState.ILLEGAL:
                add({'C01'}, f'call {i}: a rejected call is illegal on the true history', z3.Not(O['legal_next'](cs[i])))
                for label, cond in unchanged(pre, post).items():
                    add(REJECT_TAGS.get(label, {'C01'}), f'call {i} rejected: ' + label, cond)
                outcome = f'ILLEGAL at call {i}'
                break
            add({'C01'}, f'call {i}: an accepted call is legal on the true history', O['legal_next'](cs[i]))
            hist = hist + [cs[i]]
            O2 = oracle(hist, dealer)
            add({'C02'}, f'after call {i}: common history is the accepted calls', _arr_eq(post['H'], hist))
            for p in range(1, 5):
                mine = [hist[j] for j in range(len(hist)) if (dealer - 1 + j) % 4 + 1 == p]
                add({'C02'}, f'after call {i}: seat {p} list is its share of the history', _arr_eq(post['Hp'][p], mine))
            k, con = read_contract(eng, obj)
            if r is BiddingPhaseState.FINISHED:
                add({'C02'}, f'call {i}: FINISHED exactly when the history has ended', O2['ended'])
                add({'C02'}, f'call {i}: no active player after the end', post['a'] == 0)
                if k != 'ret' or con is None:
                    add({'C03'}, f'call {i}: a contract is reported at the end', False)
                else:
                    cf = contract_fields(con)
                    add({'C03'}, f'call {i}: contract = last bid / doubling status / vulnerability / true declarer',
                        z3.And(cf['vul'] == v,
                               z3.If(O2['maxbid'] == 0,
                                     z3.And(z3.Or(cf['final_bid'] == 0, cf['final_bid'] == PASS), cf['declarer'] == 0,
                                            status(cf['x'], cf['xx']) == 0),
                                     z3.And(cf['final_bid'] == O2['maxbid'], cf['declarer'] == O2['declarer'],
                                            status(cf['x'], cf['xx']) == z3.If(O2['redoubled'], 2, z3.If(O2['doubled'], 1, 0))))))
                # any further call is refused and changes nothing
                if i + 1 < K:
                    pre2 = snapshot(read_state(obj, eng))
                    try:
                        eng.call_function(BiddingPhase.take_bid, [obj, SEnum(Bid, cs[i + 1])], {})
                        add({'C02'}, f'call {i + 1} after the end is refused with an error', False)
                    except symx.RaiseEx:
                        for label, cond in unchanged(pre2, read_state(obj, eng)).items():
                            add({'C02'}, f'call {i + 1} after the end: ' + label, cond)
                outcome = f'FINISHED at call {i}'
                break
            add({'C02'}, f'call {i}: ONGOING exactly when the history has not ended', z3.Not(O2['ended']))
            add({'C01', 'C02'}, f'after call {i}: turn = dealer + number of calls', post['a'] == O2['turn'])
            add({'C01'}, f'after call {i}: available vector = legal set of the true history',
                z3.And([post['av'][j] == z3.If(O2['legal_next'](z3.IntVal(j + 1)), 1, 0) for j in range(38)]))
            add({'C03'}, f'after call {i}: no contract before the end', k == 'ret' and con is None)

        def cex(m):
            return {'kind': 'auction', 'props': sorted(props), 'dealer': dealer, 'vul': hx.mval(m, v),
                    'history': [hx.mval(m, c) for c in cs], 'call': None, 'bmc': True}
        return dict(outcome=outcome.split(' at ')[0], checks=chk, cex=cex,
                    sample=None)
    return hx.explore_case(path, dict(max_paths=400000))


# --------------------------------------------------------------------------
# H4: the longest possible auction.  Its first L calls are concrete (they run through the interpreter on the object built by
# the real constructor, the reference machine is folded alongside), then ONE symbolic call out of the 38 is offered and, if it
# ends the auction, one more.  Covers the states at the far end of the history space (length counters, buffers, the 7NT
# redoubled ceiling), which the induction reaches only through an invariant that does not describe implementation buffers.
# --------------------------------------------------------------------------
def maximal_auction():
    cs = [PASS, PASS, PASS]
    for b in range(1, 36):
        cs += [b, PASS, PASS, X, PASS, PASS, XX, PASS, PASS]
    return cs + [PASS]          # 3 + 35 * 9 + 1 = 319 calls


def _simp(S):
    return {k: ({kk: z3.simplify(vv) for kk, vv in v.items()} if isinstance(v, dict) else z3.simplify(v)) for k, v in S.items()}


def case_long(props, dealer, cut):
    from bridge_env import Bid, BiddingPhase, BiddingPhaseState, Player, Vul
    prefix = maximal_auction()[:319 - 1 - cut]

    def path(eng):
        v = z3.Int('vul')
        eng.assume(z3.And(1 <= v, v <= 4))
        obj = eng.construct(BiddingPhase, [Player(dealer), SEnum(Vul, v)], {})
        S = ref_init(z3.IntVal(dealer))
        chk = []

        def add(tags, label, cond):
            for p in sorted(tags & props):
                chk.append((f'{p}: {label}', cond))
        c, c2 = z3.Int('call'), z3.Int('call2')
        eng.assume(z3.And(c >= 1, c <= 38, c2 >= 1, c2 <= 38))

        def cexf(upto, offered):
            return lambda m: {'kind': 'auction', 'props': sorted(props), 'dealer': dealer, 'vul': hx.mval(m, v),
                              'history': prefix[:upto] + [hx.mval(m, z) for z in offered], 'call': None, 'bmc': True}
        for i, pc in enumerate(prefix):
            try:
                r = eng.call_function(BiddingPhase.take_bid, [obj, Bid(pc)], {})
            except symx.RaiseEx as e:
                return dict(outcome='raise', cex=cexf(i + 1, []),
                            checks=[(f'{p}: call {i} of the longest auction ({Bid(pc)}) is accepted, not {type(e.exc).__name__}', False) for p in sorted(props)])
            if isinstance(r, SEnum):
                r = eng.concretize_enum(r)
            if r is not BiddingPhaseState.ONGOING:
                return dict(outcome='raise', cex=cexf(i + 1, []),
                            checks=[(f'{p}: call {i} of the longest auction ({Bid(pc)}) leaves the auction open, not {r}', False) for p in sorted(props)])
            S = _simp(ref_step(S, z3.IntVal(pc)))
        L = len(prefix)
        pre = snapshot(read_state(obj, eng))
        add({'C01', 'C02'}, f'after {L} calls of the longest auction: turn, history length and available vector follow the Laws',
            z3.And(pre['a'] == S['a'], pre['n'] == L, z3.And([pre['av'][j] == avail_ref(S)[j] for j in range(38)])))
        cex = cexf(L, [c])
        try:
            r = eng.call_function(BiddingPhase.take_bid, [obj, SEnum(Bid, c)], {})
        except symx.RaiseEx as e:
            add({'C01', 'C02', 'C03'}, f'call {L}: take_bid does not raise in a live auction ({type(e.exc).__name__})', False)
            return dict(outcome='raise', checks=chk, cex=cex)
        if isinstance(r, SEnum):
            r = eng.concretize_enum(r)
        post = read_state(obj, eng)
        if r is BiddingPhaseState.ILLEGAL:
            add({'C01'}, f'call {L}: a rejected call is illegal', z3.Not(legal(S, c)))
            for label, cond in unchanged(pre, post).items():
                add(REJECT_TAGS.get(label, {'C01'}), f'call {L} rejected: ' + label, cond)
            return dict(outcome='ILLEGAL', checks=chk, cex=cex)
        add({'C01'}, f'call {L}: an accepted call is legal', legal(S, c))
        hist = [z3.IntVal(x) for x in prefix] + [c]
        add({'C02'}, f'after call {L}: common history is the accepted calls', _arr_eq(post['H'], hist))
        for p in range(1, 5):
            mine = [hist[j] for j in range(len(hist)) if (dealer - 1 + j) % 4 + 1 == p]
            add({'C02'}, f'after call {L}: seat {p} list is its share of the history', _arr_eq(post['Hp'][p], mine))
        S2 = ref_step(S, c)
        k, con = read_contract(eng, obj)
        if r is BiddingPhaseState.FINISHED:
            add({'C02'}, f'call {L}: FINISHED exactly when the auction must end', ends(S, c))
            add({'C02'}, 'no active player after the end', post['a'] == 0)
            if k != 'ret' or con is None:
                add({'C03'}, 'a contract is reported at the end', False)
            else:
                cf = contract_fields(con)
                own = z3.IntVal(0)
                for (pr, su), who in S2['dc'].items():
                    own = z3.If(z3.And(side(S2['lb']) == pr, suit_of(S2['lbid']) == su), who, own)
                add({'C03'}, 'contract = last bid / doubling status / vulnerability / first of the side to name the strain',
                    z3.And(cf['vul'] == v, cf['final_bid'] == S2['lbid'], cf['declarer'] == own,
                           status(cf['x'], cf['xx']) == status(S2['x'], S2['xx'])))
            pre2 = snapshot(read_state(obj, eng))
            cex = cexf(L, [c, c2])
            try:
                eng.call_function(BiddingPhase.take_bid, [obj, SEnum(Bid, c2)], {})
                add({'C02'}, 'a call after the end is refused with an error', False)
            except symx.RaiseEx:
                for label, cond in unchanged(pre2, read_state(obj, eng)).items():
                    add({'C02'}, 'a call after the end: ' + label, cond)
            return dict(outcome='FINISHED', checks=chk, cex=cex)
        add({'C02'}, f'call {L}: ONGOING exactly when the auction has not ended', z3.Not(ends(S, c)))
        add({'C01', 'C02'}, f'after call {L}: turn passes to the left', post['a'] == S2['a'])
        add({'C01'}, f'after call {L}: available vector = legal set', z3.And([post['av'][j] == avail_ref(S2)[j] for j in range(38)]))
        add({'C03'}, f'after call {L}: no contract before the end', k == 'ret' and con is None)
        return dict(outcome='ONGOING', checks=chk, cex=cex)
    return hx.explore_case(path, dict(max_paths=5000))


def build_cases(props, tier, K_quick, K_thorough, deep=None):
    cs = [(case_init, 'H0 constructor establishes the invariant', dict(props=props)),
          (case_step, 'H1 one call from an arbitrary live auction state', dict(props=props))]
    if 'C02' in props:
        cs.append((case_after_end, 'H1e any call after the end', dict(props=props)))
    for when in ('before', 'after'):
        cs.append((case_two_auctions, f'H3 a second auction constructed {when} two calls of a first one is a fresh auction',
                   dict(props=props, when=when, k=3 if tier == 'thorough' else 2)))
    K = K_thorough if tier == 'thorough' else K_quick
    for d in range(1, 5):
        for first in [a + b + c for a in 'PBO' for b in 'PBO' for c in 'PBO']:
            cs.append((case_bmc, f'H2 BMC dealer={d} first three calls in classes {first} (P pass, B bid, O X/XX) K={K}',
                       dict(props=props, dealer=d, K=K, first=first)))
    for d in range(1, 5):
        for cut in ((0, 2, 6) if tier != 'thorough' else (0, 1, 2, 3, 5, 6, 9, 14)):
            cs.append((case_long, f'H4 longest auction: its first {318 - cut} calls, then one symbolic call, dealer={d}',
                       dict(props=props, dealer=d, cut=cut)))
    if deep:
        Kd = deep[1] if tier == 'thorough' else deep[0]
        for d in range(1, 5):
            for first in [a + b + c for a in 'PB' for b in 'PB' for c in 'PB']:
                cs.append((case_bmc, f'H2 deep BMC (bids and passes only, closing with three passes) dealer={d} first three calls {first} K={Kd}',
                           dict(props=props, dealer=d, K=Kd, first=first, only='PB')))
    return cs


COMMON_ASSUMPTIONS = [
    'enum members are identified by their integer value; None is code 0',
    'the bid history of the inductive step is a z3 Array with symbolic length (reads at -1, -2 and appends only)',
    'np.ones(38) / slice and index assignment are modelled on a 38-term vector',
    'H3: instances share no state and none is left in the module / class (two instances, 2-3 calls on the first)',
    'H1 quantifies over all states satisfying the invariant printed in harness/auction.py:inv; H0 and H1 together '
    'cover histories of every length; the reading of legality on the TRUE history is cross-checked by H2 up to K calls',
]
