"""C07 — every contract and result scores what the duplicate scoring table says.

Encoded from source: score.calc_score, score.calc_bid_score, Contract.is_passed_out/is_vul,
Player.is_vul/pair, Pair.is_vul, Suit.is_minor/is_major, Bid.level/suit/idx.
Inputs: ONE symbolic contract (bid 1..35, x, xx Booleans - all four flag combinations -, board vulnerability
1..4, declarer 1..4) and a symbolic trick count 0..13.  Oracle: closed-form duplicate scoring written here
(not the repository's tables), with the vulnerability of declarer's side derived from (vul, declarer).
"""
import z3

from engine import hx, symx
from engine.symx import SBool, SEnum, SInt, SObj, zint


def ref_score(bid, x, xx, vul_side, tricks):
    """duplicate score from declarer's side; bid = 1..35, x/xx z3 Bools (redoubled if xx, else doubled if x)"""
    level = (bid - 1) / 5 + 1
    denom = (bid - 1) % 5 + 1            # 1 C, 2 D, 3 H, 4 S, 5 NT
    red = xx
    dbl = z3.And(x, z3.Not(xx))
    need = level + 6
    per = z3.If(denom <= 2, 20, 30)
    base = per * level + z3.If(denom == 5, 10, 0)
    mult = z3.If(red, 4, z3.If(dbl, 2, 1))
    trick_score = base * mult
    game = trick_score >= 100
    bonus = z3.If(game, z3.If(vul_side, 500, 300), 50)
    slam = z3.If(level == 6, z3.If(vul_side, 750, 500), z3.If(level == 7, z3.If(vul_side, 1500, 1000), 0))
    insult = z3.If(red, 100, z3.If(dbl, 50, 0))
    over = tricks - need
    over_each = z3.If(red, z3.If(vul_side, 400, 200), z3.If(dbl, z3.If(vul_side, 200, 100), per))
    made = trick_score + bonus + slam + insult + over * over_each
    n = need - tricks
    und = z3.If(vul_side, 100 * n, 50 * n)
    # doubled: not vul 100, 300, 500, then 300 each; vul 200 then 300 each
    dbl_nv = z3.If(n == 1, 100, z3.If(n == 2, 300, z3.If(n == 3, 500, 500 + 300 * (n - 3))))
    dbl_v = 200 + 300 * (n - 1)
    dd = z3.If(vul_side, dbl_v, dbl_nv)
    down = -z3.If(red, 2 * dd, z3.If(dbl, dd, und))
    return z3.If(tricks >= need, made, down)


def side_vulnerable(vul, declarer):
    """board vulnerability 1 NONE 2 NS 3 EW 4 BOTH; declarer 1 N 2 E 3 S 4 W"""
    ns = z3.Or(declarer == 1, declarer == 3)
    return z3.Or(vul == 4, z3.And(vul == 2, ns), z3.And(vul == 3, z3.Not(ns)))


def case_contract(made):
    from bridge_env import Bid, Contract, Player, Vul, score

    def path(eng):
        bid, vul, decl, tricks = z3.Ints('bid vul decl tricks')
        x, xx = z3.Bools('x xx')
        eng.assume(z3.And(1 <= bid, bid <= 35, 1 <= vul, vul <= 4, 1 <= decl, decl <= 4, 0 <= tricks, tricks <= 13))
        need = (bid - 1) / 5 + 7
        eng.assume(tricks >= need if made else tricks < need)
        c = SObj(Contract, dict(final_bid=SEnum(Bid, bid), x=SBool(x), xx=SBool(xx), vul=SEnum(Vul, vul),
                                declarer=SEnum(Player, decl)))

        def cex(m):
            return {'kind': 'contract', 'bid': hx.mval(m, bid), 'x': hx.mval(m, x), 'xx': hx.mval(m, xx),
                    'vul': hx.mval(m, vul), 'declarer': hx.mval(m, decl), 'tricks': hx.mval(m, tricks),
                    'want': hx.mval(m, ref_score(bid, x, xx, side_vulnerable(vul, decl), tricks))}
        try:
            r = eng.call_function(score.calc_score, [c, SInt(tricks)], {})
        except symx.RaiseEx as e:
            return dict(outcome='raise', checks=[('no exception', False)], cex=cex)
        want = ref_score(bid, x, xx, side_vulnerable(vul, decl), tricks)
        return dict(outcome='made' if made else 'down', checks=[('score == duplicate table', zint(r) == want)],
                    cex=cex, sample=z3.simplify(zint(r)).sexpr()[:200])
    return hx.explore_case(path)


def case_history_independence(made1, made2):
    """two contracts scored one after the other in the same process: the second score must not depend on the
    first call (module-level state such as a cache is part of the real code and is interpreted as such)"""
    from bridge_env import Bid, Contract, Player, Vul, score

    def path(eng):
        v = {}
        cons = []
        for i, made in ((1, made1), (2, made2)):
            bid, vul, decl, tricks = z3.Ints(f'bid{i} vul{i} decl{i} tricks{i}')
            x, xx = z3.Bools(f'x{i} xx{i}')
            eng.assume(z3.And(1 <= bid, bid <= 35, 1 <= vul, vul <= 4, 1 <= decl, decl <= 4, 0 <= tricks, tricks <= 13))
            need = (bid - 1) / 5 + 7
            eng.assume(tricks >= need if made else tricks < need)
            v[i] = (bid, x, xx, vul, decl, tricks)
            cons.append(SObj(Contract, dict(final_bid=SEnum(Bid, bid), x=SBool(x), xx=SBool(xx), vul=SEnum(Vul, vul),
                                            declarer=SEnum(Player, decl))))

        def cex(m):
            d = {'kind': 'sequence'}
            for i in (1, 2):
                bid, x, xx, vul, decl, tricks = v[i]
                d[f'c{i}'] = {'bid': hx.mval(m, bid), 'x': hx.mval(m, x), 'xx': hx.mval(m, xx), 'vul': hx.mval(m, vul),
                              'declarer': hx.mval(m, decl), 'tricks': hx.mval(m, tricks)}
            return d
        try:
            eng.call_function(score.calc_score, [cons[0], SInt(v[1][5])], {})
            r = eng.call_function(score.calc_score, [cons[1], SInt(v[2][5])], {})
        except symx.RaiseEx:
            return dict(outcome='raise', checks=[('no exception', False)], cex=cex)
        bid, x, xx, vul, decl, tricks = v[2]
        want = ref_score(bid, x, xx, side_vulnerable(vul, decl), tricks)
        return dict(outcome='second-call', checks=[('second score == duplicate table', zint(r) == want)], cex=cex)
    return hx.explore_case(path)


def case_passed_out():
    from bridge_env import Bid, Contract, Player, Vul, score

    def path(eng):
        vul, decl, tricks = z3.Ints('vul decl tricks')
        which = z3.Bool('final_bid_is_None')
        eng.assume(z3.And(1 <= vul, vul <= 4, 0 <= decl, decl <= 4, 0 <= tricks, tricks <= 13))
        fb = None if eng.decide(which) else Bid.Pass
        c = SObj(Contract, dict(final_bid=fb, x=False, xx=False, vul=SEnum(Vul, vul),
                                declarer=SEnum(Player, decl, opt=True)))

        def cex(m):
            return {'kind': 'passed_out', 'final_bid': None if fb is None else 'Pass', 'vul': hx.mval(m, vul),
                    'declarer': hx.mval(m, decl), 'tricks': hx.mval(m, tricks)}
        try:
            r = eng.call_function(score.calc_score, [c, SInt(tricks)], {})
        except symx.RaiseEx:
            return dict(outcome='raise', checks=[('no exception', False)], cex=cex)
        return dict(outcome='passed_out', checks=[('passed out scores 0', zint(r) == 0)], cex=cex)
    return hx.explore_case(path)


def case_bands():
    """vacuity twins on the oracle: every band (made / down 1..13 x doubling state) is inhabited, and the
    closed forms agree with the official figures at landmark points"""
    def build():
        bid, tricks = z3.Ints('bid tricks')
        x, xx, v = z3.Bools('x xx v')
        dom = [1 <= bid, bid <= 35, 0 <= tricks, tricks <= 13]
        need = (bid - 1) / 5 + 7
        for n in (1, 4, 13):
            yield f'twin: down {n} reachable', dom + [need - tricks == n], 'sat', None
        yield 'twin: overtricks reachable', dom + [tricks - need == 6], 'sat', None
        lm = [  # (bid, x, xx, vul, tricks, score)  landmark values of the official table
            (19, False, False, False, 10, 420), (19, False, False, True, 10, 620),
            (15, False, False, False, 9, 400), (35, False, False, True, 13, 2220), (35, True, True, True, 13, 2980),
            (1, True, False, False, 7, 140), (1, True, True, False, 7, 230), (6, True, False, True, 8, 180),
            (35, True, False, False, 0, -3500), (35, True, True, True, 0, -7600), (1, False, False, True, 0, -700),
            (30, False, False, False, 12, 990), (11, True, False, True, 10, 870)]
        for b, xv, xxv, vv, t, s in lm:
            yield (f'oracle landmark {b},{xv},{xxv},{vv},{t}',
                   [ref_score(z3.IntVal(b), z3.BoolVal(xv), z3.BoolVal(xxv), z3.BoolVal(vv), z3.IntVal(t)) != s],
                   'unsat', lambda m: {'kind': 'oracle'})
    return hx.plain_query_case(build)


def cases(tier):
    return [(case_bands, 'oracle-landmarks-and-twins', {}),
            (case_contract, 'contract made', dict(made=True)),
            (case_contract, 'contract down', dict(made=False)),
            (case_passed_out, 'passed out', {})] + [
        (case_history_independence, f'two calls in sequence ({"made" if a else "down"}, {"made" if b else "down"})',
         dict(made1=a, made2=b)) for a in (True, False) for b in (True, False)]


META = dict(
    level='model_checking',
    bounds={'domain': 'complete: 35 bids x {x,xx} flags (4 combinations) x 4 vulnerabilities x 4 declarers x tricks 0..13, '
                      'plus passed-out contracts (final bid None or Pass), all symbolic in one query per path'},
    stubs=[],
    assumptions=['closed-form duplicate scoring in harness/C07.py is the official table (landmark-checked)',
                 'a Contract with x=False, xx=True counts as redoubled (what calc_bid_score and Contract.__str__ do)'],
    rule='paths of calc_score/calc_bid_score over one symbolic contract; distinct = different path conditions '
         '(suit class x doubling x made/down x vulnerability derivation)',
    explanation='symbolic execution of the real scoring source over the whole finite domain at once; each path is '
                'one z3 query against an independent closed form',
    required_outcomes=['made', 'down', 'passed_out'],
)


def validate(tier):
    """translator validation: the interpreter in concrete mode against CPython on the functions this check encodes"""
    from engine import validate as v
    return v.run(['scores'], tier)
