"""Shared machinery of C04, C05, C06, C11(a) (the play).

Encoded from source (re-read at every run): PlayingPhase.__init__/play_card/_record/_set_next_leader/calc_highest/
has_done/_check_active_player/_check_has_card/available_cards/current_available_cards, PlayingHistory.record,
PlayingPhaseWithHands.__init__/play_card_by_player/current_available_cards_in_hand, ObservedPlayingPhase.*,
Hands.__getitem__, Player.partner/left/next_player/pair, Contract.trump/is_passed_out, Bid.suit, RandomPlay.play.

Sets of cards are 52 z3 Booleans (+ a size term maintained by the model), so one query speaks about every hand.

H1  one play_card_by_player(card, seat) from an ARBITRARY state satisfying the invariant (any trick 1..13,
    0..3 cards on the table, any contract, any hands), card and seat symbolic (revokes, wrong seats, unheld and
    already played cards are all inside).
H0  the real constructors establish the invariant (leader = declarer's left, dummy = declarer's partner).
H2  bounded model checking from the real constructor with a symbolic deal: the first n plays.
"""
import z3

from engine import cards as cardmod
from engine import hx, symx
from engine.symx import CardSet, SBool, SEnum, SInt, SLog, SObj, Sym, zbool, zenum, zint

SEATS = {1: 'north', 2: 'east', 3: 'south', 4: 'west'}


def side(p):
    return z3.If(p % 2 == 1, 1, 2)


def suit_of_bid(b):
    return (b - 1) % 5 + 1


def cidx(r, s):
    return (s - 1) * 13 + r - 2


def unknown_field(exc):
    """the interpreted code read a state field that the harness's pre-state does not describe (the implementation keeps
    additional state): the inductive step cannot quantify over it - not a verdict, the from-the-constructor cases decide"""
    return isinstance(exc, AttributeError) and 'has no attribute' in str(exc)


NA = 'H1 not applicable'


def ref_winner(cards, trump):
    """cards: four (rank, suit) z3 pairs in the order played; trump 1..5 (5 = NT). Index 0..3 of the winner."""
    has_trump = z3.Or([s == trump for _, s in cards])
    eff = z3.If(has_trump, trump, cards[0][1])
    score = [z3.If(s == eff, r, 0) for r, s in cards]
    w = z3.IntVal(3)
    for j in (2, 1, 0):
        w = z3.If(z3.And([score[j] >= score[k] for k in range(4) if k != j]), j, w)
    return w


def ref_available(hand_bits, led_suit):
    """follow-suit rule: bits of the playable set; led_suit 0 = leading"""
    insuit = [z3.And(hand_bits[i], led_suit == i // 13 + 1) for i in range(52)]
    any_in = z3.Or(insuit)
    return [z3.If(z3.And(led_suit != 0, any_in), insuit[i], hand_bits[i]) for i in range(52)]


# --------------------------------------------------------------------------
# symbolic state
# --------------------------------------------------------------------------
def fresh_state(eng, t, kind='full', tag=''):
    """kind: 'full' = PlayingPhaseWithHands; returns (obj, st)"""
    from bridge_env import Bid, Contract, Hands, Pair, Player, PlayingPhaseWithHands, Suit, Vul
    from bridge_env.playing_phase import PlayingHistory
    I = lambda n: z3.Int(n + tag)
    st = dict(b=I('bid'), x=z3.Bool('x' + tag), xx=z3.Bool('xx' + tag), vul=I('vul'), dcl=I('declarer'),
              L=I('leader'), A=I('active'), T=I('trick_num'), t=t,
              table=[(I(f'table{j}_rank'), I(f'table{j}_suit')) for j in range(t)],
              used=cardmod.fresh_cardset('used' + tag), hands={p: cardmod.fresh_cardset(f'hand{p}' + tag) for p in range(1, 5)},
              ns=I('tricks_ns'), ew=I('tricks_ew'), base=I('history_len'))
    contract = SObj(Contract, dict(final_bid=SEnum(Bid, st['b']), x=SBool(st['x']), xx=SBool(st['xx']),
                                   vul=SEnum(Vul, st['vul']), declarer=SEnum(Player, st['dcl'])))
    st['contract'] = contract
    hist = SObj(PlayingHistory, {'_history': SLog(st['base']), '_contract': contract})
    hands = SObj(Hands, {SEATS[p]: st['hands'][p] for p in range(1, 5)})
    obj = SObj(PlayingPhaseWithHands, dict(
        contract=contract, trump=SEnum(Suit, suit_of_bid(st['b'])), declarer=SEnum(Player, st['dcl']),
        dummy=SEnum(Player, (st['dcl'] + 1) % 4 + 1), leader=SEnum(Player, st['L']), active_player=SEnum(Player, st['A']),
        _trick_cards=[cardmod.sym_card(r, s) for r, s in st['table']], trick_num=SInt(st['T']),
        playing_history=hist, used_cards=st['used'], taken_tricks={Pair.NS: SInt(st['ns']), Pair.EW: SInt(st['ew'])},
        hands=hands))
    return obj, st


def invariant(st, over=False):
    """labelled components; st holds z3 terms (pre- or post-state).  over=True also admits the state after the 52nd card
    (trick number 14, nothing on the table, every hand empty): a pre-state for "play is over: everything is refused"."""
    t, T, L, A = st['t'], st['T'], st['L'], st['A']
    out = {}
    out['contract well-formed'] = z3.And(1 <= st['b'], st['b'] <= 35, 1 <= st['vul'], st['vul'] <= 4,
                                         1 <= st['dcl'], st['dcl'] <= 4)
    out['trick number 1..13, leader and turn are seats'] = z3.And(1 <= T, T <= (14 if over and t == 0 else 13), 1 <= L, L <= 4, 1 <= A, A <= 4)
    out['turn = leader + cards on the table'] = A == (L - 1 + t) % 4 + 1
    out['table cards are cards'] = z3.And([z3.And(2 <= r, r <= 14, 1 <= s, s <= 4) for r, s in st['table']] or [True])
    H, U = st['hands'], st['used']
    dis = []
    for i in range(52):
        bits = [H[p].bits[i] for p in range(1, 5)] + [U.bits[i]]
        for a in range(5):
            for b in range(a + 1, 5):
                dis.append(z3.Not(z3.And(bits[a], bits[b])))
    out['hands and played cards pairwise disjoint'] = z3.And(dis)
    tab = []
    for j, (r, s) in enumerate(st['table']):
        tab.append(z3.Or([z3.And(cidx(r, s) == i, U.bits[i]) for i in range(52)]))
        for k in range(j):
            tab.append(cidx(r, s) != cidx(*st['table'][k]))
    out['table cards are distinct played cards'] = z3.And(tab or [True])
    sizes = [U.n == 4 * (T - 1) + t]
    for p in range(1, 5):
        sizes.append(H[p].n == 13 - (T - 1) - z3.If((p - L) % 4 < t, 1, 0))
    out['set sizes: played = 4(trick-1)+table, hands = 13 - tricks - played-this-trick'] = z3.And(sizes)
    out['trick counts total the finished tricks'] = z3.And(st['ns'] >= 0, st['ew'] >= 0, st['ns'] + st['ew'] == T - 1)
    out['history lists the finished tricks'] = st['base'] == T - 1
    out['opening leader is declarer\'s left; later leaders won a trick'] = z3.And(
        z3.Implies(T == 1, L == st['dcl'] % 4 + 1),
        z3.Implies(T > 1, z3.If(side(L) == 1, st['ns'], st['ew']) >= 1))
    return out


def set_axioms(st):
    return z3.And([st['used'].axioms()] + [st['hands'][p].axioms() for p in range(1, 5)])


def read_state(obj, st0):
    """state dict (same layout) read from the interpreted object"""
    from bridge_env import Pair
    A = obj.attrs
    st = dict(st0)
    st['L'], st['A'], st['T'] = zenum(A['leader']), zenum(A['active_player']), zint(A['trick_num'])
    tc = A['_trick_cards']
    st['table'] = [(zint(c.attrs['rank']) if isinstance(c, SObj) else z3.IntVal(c.rank),
                    zenum(c.attrs['suit']) if isinstance(c, SObj) else z3.IntVal(c.suit.value)) for c in tc]
    st['t'] = len(tc)
    st['used'] = A['used_cards']
    hs = A['hands']
    st['hands'] = {p: hs.attrs[SEATS[p]] for p in range(1, 5)}
    st['ns'], st['ew'] = zint(A['taken_tricks'][Pair.NS]), zint(A['taken_tricks'][Pair.EW])
    h = A['playing_history'].attrs['_history']
    st['hist_app'] = list(h.app) if isinstance(h, SLog) else list(h)
    st['base'] = h.base + len(h.app) if isinstance(h, SLog) else z3.IntVal(len(h))
    st['trump'], st['declarer'], st['dummy'] = zenum(A['trump']), zenum(A['declarer']), zenum(A['dummy'])
    st['contract_obj'] = A['contract']
    return st


def snapshot(st):
    s = dict(st)
    s['hands'] = {p: st['hands'][p].copy() for p in range(1, 5)}
    s['used'] = st['used'].copy()
    s['table'] = list(st['table'])
    return s


def bits_eq(a, b):
    return z3.And([x == y for x, y in zip(a.bits, b.bits)])


def unchanged(pre, post):
    out = {}
    out['hands unchanged'] = z3.And([bits_eq(pre['hands'][p], post['hands'][p]) for p in range(1, 5)] +
                                    [pre['hands'][p].n == post['hands'][p].n for p in range(1, 5)])
    out['played cards unchanged'] = z3.And(bits_eq(pre['used'], post['used']), pre['used'].n == post['used'].n)
    out['table unchanged'] = z3.And([z3.And(a[0] == b[0], a[1] == b[1]) for a, b in zip(pre['table'], post['table'])]) \
        if len(pre['table']) == len(post['table']) else z3.BoolVal(False)
    out['leader, turn, trick number unchanged'] = z3.And(pre['L'] == post['L'], pre['A'] == post['A'], pre['T'] == post['T'])
    out['trick counts unchanged'] = z3.And(pre['ns'] == post['ns'], pre['ew'] == post['ew'])
    out['history unchanged'] = z3.And(post['base'] == pre['base'], z3.BoolVal(len(post.get('hist_app', [])) == 0))
    return out


# --------------------------------------------------------------------------
# turning a model into a replayable play sequence (public API only)
# --------------------------------------------------------------------------
def synth_play(eng, neg, pre, card, seat, extra=None, max_trick=13, budget_s=900, min_trick=1):
    """Counterexample to induction -> a deal and a sequence of plays (public API) that reaches the offending
    pre-state.  For a concrete trick number T0 = 1, 2, ... the earlier tricks are 4(T0-1) symbolic cards whose winners
    (reference rule) must produce the pre-state's leader and counts; every hand is an explicit strictly increasing
    list of card indices, so cardinalities are exact in this query (the weak size axioms are not relied upon)."""
    import time as _t
    t0 = _t.time()
    t = pre['t']
    trump = suit_of_bid(pre['b'])
    for T0 in range(min_trick, max_trick + 1):
        if _t.time() - t0 > budget_s:
            return None
        cons = [pre['T'] == T0]
        tricks = [[(z3.Int(f'h{k}_{j}_r'), z3.Int(f'h{k}_{j}_s')) for j in range(4)] for k in range(T0 - 1)]
        leader = pre['dcl'] % 4 + 1
        ns, ew = z3.IntVal(0), z3.IntVal(0)
        leaders = []
        for tr in tricks:
            leaders.append(leader)
            for r, s_ in tr:
                cons.append(z3.And(2 <= r, r <= 14, 1 <= s_, s_ <= 4))
            w = ref_winner(tr, trump)
            leader = (leader - 1 + w) % 4 + 1
            ns = ns + z3.If(side(leader) == 1, 1, 0)
            ew = ew + z3.If(side(leader) == 2, 1, 0)
        cons += [pre['L'] == leader, pre['ns'] == ns, pre['ew'] == ew]
        played = [cidx(r, s_) for tr in tricks for r, s_ in tr] + [cidx(r, s_) for r, s_ in pre['table']]
        if len(played) > 1:
            cons.append(z3.Distinct(played))
        for i in range(52):
            cons.append(pre['used'].bits[i] == (z3.Or([x == i for x in played]) if played else z3.BoolVal(False)))
        m = 13 - (T0 - 1)
        slots = {}
        for p in range(1, 5):
            hc = [z3.Int(f'hand{p}_slot{j}') for j in range(m)]
            slots[p] = hc
            cons += [z3.And(0 <= x, x <= 51) for x in hc]
            cons += [hc[j] < hc[j + 1] for j in range(m - 1)]
            gone = (p - pre['L']) % 4 < t         # this seat has already played to the current trick
            for i in range(52):
                alts = [hc[j] == i for j in range(m - 1)] + ([z3.And(z3.Not(gone), hc[m - 1] == i)] if m else [])
                cons.append(pre['hands'][p].bits[i] == (z3.Or(alts) if alts else z3.BoolVal(False)))
        shapes = [[]]
        if T0 == 14:
            # a finished board: 52 free cards make a slow query; try two shapes of history first (every trick = the four
            # cards of one rank in a chosen order: with a trump suit any position can win; for no-trump: twelve
            # one-suit tricks of four neighbouring ranks in a chosen order, then the four aces), then the free form
            eq_rank = [z3.And([r == k + 2 for r, _ in tr] + [z3.Distinct([s_ for _, s_ in tr])]) for k, tr in enumerate(tricks)]
            one_suit = []
            for k, tr in enumerate(tricks[:12]):
                lo = 2 + 4 * (k % 3)
                one_suit.append(z3.And([s_ == k // 3 + 1 for _, s_ in tr] + [z3.And(lo <= r, r <= lo + 3) for r, _ in tr] +
                                       [z3.Distinct([r for r, _ in tr])]))
            one_suit.append(z3.And([r == 14 for r, _ in tricks[12]] + [z3.Distinct([s_ for _, s_ in tricks[12]])]))
            shapes = [eq_rank, one_suit, []]
        r, mdl = z3.unsat, None
        for shape in shapes:
            eng.solver.push()
            try:
                eng.solver.set('timeout', 180000)        # only ever run on a failing path; generous, the machine may be loaded
                eng.solver.add(neg, *cons, *shape)
                r = eng.solver.check()
                if r == z3.sat:
                    mdl = eng.solver.model()
                    break
            finally:
                eng.solver.pop()
                eng.solver.set('timeout', eng.timeout_ms)
        eng.solver.push()
        try:
            if r != z3.sat:
                continue
            ev = lambda z: hx.mval(mdl, z)
            L0 = ev(pre['dcl']) % 4 + 1
            plays = []
            ld = L0
            dl = {p: [i for i in range(52) if ev(pre['hands'][p].bits[i]) is True] for p in range(1, 5)}
            tv = ev(trump)
            for tr in tricks:
                cs4 = [(ev(r), ev(s_)) for r, s_ in tr]
                for j, (r, s_) in enumerate(cs4):
                    seat_j = (ld - 1 + j) % 4 + 1
                    plays.append([(s_ - 1) * 13 + r - 2, seat_j])
                    dl[seat_j].append((s_ - 1) * 13 + r - 2)
                has_t = any(s_ == tv for _, s_ in cs4)
                eff = tv if has_t else cs4[0][1]
                w = max(range(4), key=lambda j: cs4[j][0] if cs4[j][1] == eff else 0)
                ld = (ld - 1 + w) % 4 + 1
            for j, (r, s_) in enumerate(pre['table']):
                seat_j = (ld - 1 + j) % 4 + 1
                ix = (ev(s_) - 1) * 13 + ev(r) - 2
                plays.append([ix, seat_j])
                dl[seat_j].append(ix)
            out = {'kind': 'play', 'contract': {'bid': ev(pre['b']), 'x': ev(pre['x']), 'xx': ev(pre['xx']),
                                                'vul': ev(pre['vul']), 'declarer': ev(pre['dcl'])},
                   'deal': {str(p): sorted(dl[p]) for p in range(1, 5)}, 'plays': plays,
                   'attempt': [(ev(card[1]) - 1) * 13 + ev(card[0]) - 2, ev(seat)]}
            if extra:
                out.update(extra(mdl) if callable(extra) else extra)
            return out
        finally:
            eng.solver.pop()
            eng.solver.set('timeout', eng.timeout_ms)
    return None


# --------------------------------------------------------------------------
# H1: one play from an arbitrary state
# --------------------------------------------------------------------------
def case_step(props, t, who='any', over=False):
    """who: 'turn' (seat == seat on turn) | 'other' (seat != seat on turn) - splits the work; over: the pre-state is the
    one after the 52nd card (t == 0)"""
    from bridge_env import PlayingPhaseWithHands, Player

    def path(eng):
        eng.summarize.add(PlayingPhaseWithHands.calc_highest)
        obj, st = fresh_state(eng, t)
        eng.assume(set_axioms(st))
        eng.assume(z3.And(list(invariant(st, over).values())))
        if over:
            eng.assume(st['T'] == 14)
        cr, cs_, seat = z3.Int('card_rank'), z3.Int('card_suit'), z3.Int('seat')
        eng.assume(z3.And(2 <= cr, cr <= 14, 1 <= cs_, cs_ <= 4, 1 <= seat, seat <= 4))
        if who == 'turn':
            eng.assume(seat == st['A'])
        elif who == 'other':
            eng.assume(seat != st['A'])
        card = cardmod.sym_card(cr, cs_)
        pre = snapshot(st)
        ci = cidx(cr, cs_)
        held = z3.Or([z3.And(st['A'] == p, z3.Or([z3.And(ci == i, pre['hands'][p].bits[i]) for i in range(52)]))
                      for p in range(1, 5)])
        ok = z3.And(seat == st['A'], held)

        def refine(eng, neg, m):
            return synth_play(eng, neg, pre, (cr, cs_), seat, {'props': sorted(props)}, max_trick=14 if over else 13,
                              min_trick=14 if over else 1)
        chk = []

        def add(tags, label, cond):
            for p in sorted(tags & props):
                chk.append((f'{p}: {label}', cond))
        # the public accessors are also read BEFORE the step (query - step - query): an accessor that caches or
        # consumes what it returns would otherwise go unnoticed
        acc = symx.Frame(eng, PlayingPhaseWithHands.play_card_by_player, {})
        acc.getattr(obj.attrs['playing_history'], 'history')
        try:
            eng.call_function(PlayingPhaseWithHands.play_card_by_player, [obj, card, SEnum(Player, seat)], {})
        except symx.RaiseEx as e:
            if unknown_field(e.exc):
                return dict(outcome=NA, checks=[], sample=str(e.exc))
            post = read_state(obj, st)
            add({'C05'}, 'a play is refused only out of turn or of a card the seat does not hold', z3.Not(ok))
            add({'C05'}, 'the refusal is a ValueError', isinstance(e.exc, ValueError))
            for label, cond in unchanged(pre, post).items():
                add({'C05'}, 'refused play: ' + label, cond)
            return dict(outcome='refused', checks=chk, refine=refine)
        post = read_state(obj, st)
        pub = acc.getattr(obj.attrs['playing_history'], 'history')
        add({'C04'}, 'the public history accessor lists every recorded trick (also when it was read before the play)',
            z3.And(zint(pub.base) + len(pub.app) == post['base'], z3.BoolVal(len(pub.app) == len(post['hist_app']) and
                                                                             all(a is b for a, b in zip(pub.app, post['hist_app']))))
            if isinstance(pub, symx.SLog) else z3.BoolVal(False))
        add({'C05'}, 'a play is accepted only from the seat on turn and of a card it holds', ok)
        A = pre['A']
        moved = []
        for p in range(1, 5):
            for i in range(52):
                moved.append(post['hands'][p].bits[i] == z3.And(pre['hands'][p].bits[i], z3.Not(z3.And(A == p, ci == i))))
        for i in range(52):
            moved.append(post['used'].bits[i] == z3.Or(pre['used'].bits[i], ci == i))
        add({'C05'}, 'exactly the played card moves from the hand of the seat on turn to the played cards', z3.And(moved))
        if t < 3:
            add({'C04'}, 'inside a trick: the turn passes to the left, leader/trick number/counts unchanged',
                z3.And(post['A'] == A % 4 + 1, post['L'] == pre['L'], post['T'] == pre['T'], post['ns'] == pre['ns'],
                       post['ew'] == pre['ew']))
            add({'C04'}, 'inside a trick: the card is put on the table after the earlier ones, history unchanged',
                z3.And(z3.BoolVal(post['t'] == t + 1 and len(post['hist_app']) == 0),
                       *[z3.And(a[0] == b[0], a[1] == b[1]) for a, b in zip(pre['table'] + [(cr, cs_)], post['table'])]))
            outcome = f'card {t + 1} of a trick'
        else:
            four = pre['table'] + [(cr, cs_)]
            w = ref_winner(four, suit_of_bid(pre['b']))
            winner = (pre['L'] - 1 + w) % 4 + 1
            add({'C04'}, 'trick complete: the winner (highest trump, else highest of the suit led) leads and is on turn',
                z3.And(post['L'] == winner, post['A'] == winner))
            add({'C04'}, 'trick complete: exactly the winner\'s side is credited one trick',
                z3.And(post['ns'] == pre['ns'] + z3.If(side(winner) == 1, 1, 0),
                       post['ew'] == pre['ew'] + z3.If(side(winner) == 2, 1, 0)))
            add({'C04'}, 'trick complete: trick number +1, table empty', z3.And(post['T'] == pre['T'] + 1, z3.BoolVal(post['t'] == 0)))
            hist_ok = z3.BoolVal(False)
            if len(post['hist_app']) == 1:
                th = post['hist_app'][0]
                g = (lambda k: th.attrs[k]) if isinstance(th, SObj) else (lambda k: getattr(th, k))
                cs4 = list(g('cards'))
                if len(cs4) == 4:
                    same = [zenum(g('leader')) == pre['L']]
                    for (r, s), c4 in zip(four, cs4):
                        same.append(z3.And(zint(c4.attrs['rank'] if isinstance(c4, SObj) else c4.rank) == r,
                                           zenum(c4.attrs['suit'] if isinstance(c4, SObj) else c4.suit) == s))
                    hist_ok = z3.And(same)
            add({'C04'}, 'trick complete: history gains (actual leader, the four cards in the order played)', hist_ok)
            outcome = 'card 4 of a trick'
        post_inv = dict(post)
        if post['T'] is not None:
            # the invariant speaks about live boards (trick <= 13); after the 52nd card only the totals remain
            live = post['T'] <= 13
            for label, cond in invariant(post_inv).items():
                tags = {'C04', 'C05'}
                add(tags, 'invariant re-established: ' + label, z3.Implies(live, cond))
            add({'C04', 'C05'}, 'after the last card: counts total 13, every hand empty, play is over',
                z3.Implies(z3.Not(live), z3.And(post['ns'] + post['ew'] == 13, post['T'] == 14,
                                                *[post['hands'][p].n == 0 for p in range(1, 5)])))
        return dict(outcome=outcome, checks=chk, refine=refine)
    return hx.explore_case(path, dict(max_paths=50000))


# --------------------------------------------------------------------------
# has_done lemma
# --------------------------------------------------------------------------
def case_has_done(props):
    from bridge_env import PlayingPhaseWithHands

    def path(eng):
        obj, st = fresh_state(eng, 0)
        T = st['T']
        eng.assume(z3.And(1 <= T, T <= 14, st['ns'] >= 0, st['ew'] >= 0, st['ns'] + st['ew'] == T - 1, st['base'] == T - 1))
        r = eng.call_function(PlayingPhaseWithHands.has_done, [obj], {})
        z = zbool(r) if isinstance(r, Sym) else z3.BoolVal(bool(r))
        cex = lambda m: {'kind': 'has_done', 'trick_num': hx.mval(m, T), 'props': sorted(props)}
        return dict(outcome='has_done', cex=cex,
                    checks=[(f'{p}: play is over exactly when thirteen tricks are recorded (counts total 13)',
                             z == (st['ns'] + st['ew'] == 13)) for p in sorted(props)])
    return hx.explore_case(path)


# --------------------------------------------------------------------------
# H0: constructors
# --------------------------------------------------------------------------
def sym_contract(tag=''):
    from bridge_env import Bid, Contract, Player, Vul
    b, vul, dcl = z3.Int('bid' + tag), z3.Int('vul' + tag), z3.Int('declarer' + tag)
    x, xx = z3.Bool('x' + tag), z3.Bool('xx' + tag)
    c = SObj(Contract, dict(final_bid=SEnum(Bid, b), x=SBool(x), xx=SBool(xx), vul=SEnum(Vul, vul), declarer=SEnum(Player, dcl)))
    dom = z3.And(1 <= b, b <= 35, 1 <= vul, vul <= 4, 1 <= dcl, dcl <= 4)
    return c, dom, dict(b=b, x=x, xx=xx, vul=vul, dcl=dcl)


def case_init(props):
    from bridge_env import Hands, PlayingPhaseWithHands

    def path(eng):
        c, dom, v = sym_contract()
        eng.assume(dom)
        hs = {p: cardmod.fresh_cardset(f'hand{p}') for p in range(1, 5)}
        hands = SObj(Hands, {SEATS[p]: hs[p] for p in range(1, 5)})
        cex = lambda m: {'kind': 'init', 'props': sorted(props),
                         'contract': {k: hx.mval(m, z) for k, z in (('bid', v['b']), ('x', v['x']), ('xx', v['xx']),
                                                                      ('vul', v['vul']), ('declarer', v['dcl']))}}
        try:
            obj = eng.construct(PlayingPhaseWithHands, [c, hands], {})
        except symx.RaiseEx:
            return dict(outcome='raise', cex=cex, checks=[(f'{p}: constructor does not raise for a real contract', False) for p in sorted(props)])
        st0 = dict(b=v['b'], x=v['x'], xx=v['xx'], vul=v['vul'], dcl=v['dcl'])
        st = read_state(obj, st0)
        dcl = v['dcl']
        cond = z3.And(st['L'] == dcl % 4 + 1, st['A'] == dcl % 4 + 1, st['dummy'] == (dcl + 1) % 4 + 1, st['declarer'] == dcl,
                      st['trump'] == suit_of_bid(v['b']), st['T'] == 1, z3.BoolVal(st['t'] == 0), st['ns'] == 0, st['ew'] == 0,
                      st['base'] == 0, z3.Not(z3.Or(st['used'].bits)), st['used'].n == 0,
                      *[bits_eq(st['hands'][p], hs[p]) for p in range(1, 5)])
        return dict(outcome='constructed', cex=cex,
                    checks=[(f'{p}: opening lead belongs to declarer\'s left, dummy is declarer\'s partner, trick 1, '
                             'nothing played, counts zero, hands as dealt', cond) for p in sorted(props)])
    return hx.explore_case(path)


# --------------------------------------------------------------------------
# H3: two boards alive in one process do not interfere
# --------------------------------------------------------------------------
def case_two_boards(props, when, declarer_a=1, declarer_b=2):
    """Board A (real constructor, symbolic deal) gets its opening lead; board B is constructed `when` = 'before' or
    'after' that play.  B must be exactly a fresh board: nothing on its table, its leader is offered the whole hand."""
    from bridge_env import Hands, Player, PlayingPhaseWithHands

    def mk(eng, tag, declarer):
        c, dom, v = sym_contract(tag)
        eng.assume(dom)
        eng.assume(v['dcl'] == declarer)
        c.attrs['declarer'] = Player(declarer)
        hs = {p: cardmod.fresh_cardset(f'hand{p}{tag}') for p in range(1, 5)}
        for i in range(52):
            bits = [hs[p].bits[i] for p in range(1, 5)]
            eng.assume(z3.And([z3.Not(z3.And(bits[a], bits[b])) for a in range(4) for b in range(a + 1, 4)]))
        for p in range(1, 5):
            eng.assume(z3.And(hs[p].axioms(), hs[p].n == 13))
        deal = {p: hs[p].copy() for p in range(1, 5)}
        return c, v, hs, deal

    def path(eng):
        ca, va, hsa, deal_a = mk(eng, '_a', declarer_a)
        cb, vb, hsb, deal_b = mk(eng, '_b', declarer_b)
        r, s_ = z3.Int('lead_rank'), z3.Int('lead_suit')
        eng.assume(z3.And(2 <= r, r <= 14, 1 <= s_, s_ <= 4))
        la, lb = declarer_a % 4 + 1, declarer_b % 4 + 1
        ci = cidx(r, s_)
        eng.assume(z3.Or([z3.And(ci == i, deal_a[la].bits[i]) for i in range(52)]))     # A's opening leader holds the card

        def cex(m):
            ev = lambda z: hx.mval(m, z)
            return {'kind': 'two_boards', 'props': sorted(props), 'when': when,
                    'a': {'contract': {'bid': ev(va['b']), 'x': ev(va['x']), 'xx': ev(va['xx']), 'vul': ev(va['vul']), 'declarer': declarer_a},
                          'deal': {str(p): [i for i in range(52) if ev(deal_a[p].bits[i]) is True] for p in range(1, 5)}},
                    'b': {'contract': {'bid': ev(vb['b']), 'x': ev(vb['x']), 'xx': ev(vb['xx']), 'vul': ev(vb['vul']), 'declarer': declarer_b},
                          'deal': {str(p): [i for i in range(52) if ev(deal_b[p].bits[i]) is True] for p in range(1, 5)}},
                    'lead': (ev(s_) - 1) * 13 + ev(r) - 2}
        try:
            A = eng.construct(PlayingPhaseWithHands, [ca, SObj(Hands, {SEATS[p]: hsa[p] for p in range(1, 5)})], {})
            B = eng.construct(PlayingPhaseWithHands, [cb, SObj(Hands, {SEATS[p]: hsb[p] for p in range(1, 5)})], {}) if when == 'before' else None
            eng.call_function(PlayingPhaseWithHands.play_card_by_player, [A, cardmod.sym_card(r, s_), Player(la)], {})
            if B is None:
                B = eng.construct(PlayingPhaseWithHands, [cb, SObj(Hands, {SEATS[p]: hsb[p] for p in range(1, 5)})], {})
        except symx.RaiseEx as e:
            return dict(outcome='raise', cex=cex, checks=[(f'{q}: two boards can be constructed and the first one led to ({e.exc!r})', False) for q in sorted(props)])
        fr = symx.Frame(eng, PlayingPhaseWithHands.play_card_by_player, {})
        tc = fr.getattr(B, '_trick_cards')
        chk = []

        def add(tags, label, cond):
            for q in sorted(tags & props):
                chk.append((f'{q}: {label}', cond))
        from bridge_env import Pair
        add({'C04', 'C05', 'C06'}, f'the second board (constructed {when} the lead to the first) has nothing on its table', len(tc) == 0)
        add({'C04'}, 'the second board: its own opening leader is on turn, trick 1, no tricks taken, empty history',
            z3.And(zenum(fr.getattr(B, 'leader')) == lb, zenum(fr.getattr(B, 'active_player')) == lb, zint(fr.getattr(B, 'trick_num')) == 1,
                   zint(fr.getattr(B, 'taken_tricks')[Pair.NS]) == 0, zint(fr.getattr(B, 'taken_tricks')[Pair.EW]) == 0))
        hb = fr.getattr(B, 'hands')
        add({'C05'}, 'the second board holds exactly its own deal and no played cards',
            z3.And([hb.attrs[SEATS[p]].bits[i] == deal_b[p].bits[i] for p in range(1, 5) for i in range(52)] +
                   [z3.Not(b) for b in fr.getattr(B, 'used_cards').bits]))
        av = eng.call_function(PlayingPhaseWithHands.current_available_cards_in_hand, [B, Player(lb)], {})
        add({'C06'}, 'the second board offers its leader the whole hand',
            z3.And([av.bits[i] == deal_b[lb].bits[i] for i in range(52)]) if isinstance(av, CardSet) else z3.BoolVal(False))
        return dict(outcome='two boards', checks=chk, cex=cex)
    return hx.explore_case(path, dict(max_paths=5000))


# --------------------------------------------------------------------------
# H3c: a deep copy of a board in progress (what a look-ahead player makes) is a board of its own
# --------------------------------------------------------------------------
def case_clone(props, declarer):
    """Board A (real constructor, symbolic deal) gets its opening lead; B = copy.deepcopy(A) (the class's own __deepcopy__ is
    interpreted if it has one); the trick is completed on B with symbolic cards held by the seats on turn.  A must not
    notice: every observable of A stays what it was when the copy was taken, and B has completed exactly one trick."""
    import copy
    from bridge_env import Hands, Pair, Player, PlayingPhaseWithHands

    def path(eng):
        eng.summarize.add(PlayingPhaseWithHands.calc_highest)
        c, dom, v = sym_contract()
        eng.assume(dom)
        eng.assume(v['dcl'] == declarer)
        c.attrs['declarer'] = Player(declarer)
        hs = {p: cardmod.fresh_cardset(f'hand{p}') for p in range(1, 5)}
        for i in range(52):
            bits = [hs[p].bits[i] for p in range(1, 5)]
            eng.assume(z3.And([z3.Not(z3.And(bits[a], bits[b])) for a in range(4) for b in range(a + 1, 4)]))
        for p in range(1, 5):
            eng.assume(z3.And(hs[p].axioms(), hs[p].n == 13))
        deal = {p: hs[p].copy() for p in range(1, 5)}
        plays = [(z3.Int(f'p{k}_rank'), z3.Int(f'p{k}_suit')) for k in range(4)]
        lead = declarer % 4 + 1
        seats = [(lead - 1 + k) % 4 + 1 for k in range(4)]
        for k, (r, s_) in enumerate(plays):
            eng.assume(z3.And(2 <= r, r <= 14, 1 <= s_, s_ <= 4))
            ci = cidx(r, s_)
            eng.assume(z3.Or([z3.And(ci == i, deal[seats[k]].bits[i]) for i in range(52)]))     # held by the seat on turn

        def cex(m):
            ev = lambda z: hx.mval(m, z)
            return {'kind': 'clone', 'props': sorted(props),
                    'contract': {'bid': ev(v['b']), 'x': ev(v['x']), 'xx': ev(v['xx']), 'vul': ev(v['vul']), 'declarer': declarer},
                    'deal': {str(p): [i for i in range(52) if ev(deal[p].bits[i]) is True] for p in range(1, 5)},
                    'plays': [[(ev(s_) - 1) * 13 + ev(r) - 2, seats[k]] for k, (r, s_) in enumerate(plays)]}
        chk = []

        def add(tags, label, cond):
            for q in sorted(tags & props):
                chk.append((f'{q}: {label}', cond))
        try:
            A = eng.construct(PlayingPhaseWithHands, [c, SObj(Hands, {SEATS[p]: hs[p] for p in range(1, 5)})], {})
            eng.call_function(PlayingPhaseWithHands.play_card_by_player, [A, cardmod.sym_card(*plays[0]), Player(seats[0])], {})
            B = eng.call(copy.deepcopy, [A], {})
        except symx.RaiseEx as e:
            return dict(outcome='raise', cex=cex, checks=[(f'{q}: a board that has been led to can be deep-copied ({e.exc!r})', False) for q in sorted(props)])
        if not isinstance(B, SObj) or B is A:
            return dict(outcome='raise', cex=cex, checks=[(f'{q}: the deep copy is a board object of its own', False) for q in sorted(props)])
        preA = snapshot(read_state(A, dict(b=v['b'])))
        fr = symx.Frame(eng, PlayingPhaseWithHands.play_card_by_player, {})
        histA0 = len(list(fr.getattr(A.attrs['playing_history'], 'history')))
        for k in (1, 2, 3):
            try:
                eng.call_function(PlayingPhaseWithHands.play_card_by_player, [B, cardmod.sym_card(*plays[k]), Player(seats[k])], {})
            except symx.RaiseEx as e:
                add({'C04', 'C05'}, f'the copy accepts card {k + 1} of the trick from the seat on turn that holds it ({type(e.exc).__name__})', False)
                return dict(outcome='clone refused', checks=chk, cex=cex)
            postA = read_state(A, dict(b=v['b']))
            same = [postA['L'] == preA['L'], postA['A'] == preA['A'], postA['T'] == preA['T'], z3.BoolVal(postA['t'] == preA['t']),
                    postA['ns'] == preA['ns'], postA['ew'] == preA['ew'], bits_eq(postA['used'], preA['used']),
                    z3.BoolVal(len(list(fr.getattr(A.attrs['playing_history'], 'history'))) == histA0)]
            same += [bits_eq(postA['hands'][p], preA['hands'][p]) for p in range(1, 5)]
            add({'C04', 'C05'}, f'after card {k + 1} on the copy the original board is unchanged (turn, table, hands, played cards, counts, history)',
                z3.And(same))
        postB = read_state(B, dict(b=v['b']))
        add({'C04'}, 'the copy has completed exactly one trick: trick 2, empty table, one recorded trick, counts total 1',
            z3.And(postB['T'] == 2, z3.BoolVal(postB['t'] == 0), postB['ns'] + postB['ew'] == 1,
                   z3.BoolVal(len(list(fr.getattr(B.attrs['playing_history'], 'history'))) == 1)))
        add({'C05'}, 'the copy: remaining hands and played cards partition the deal',
            z3.And([postB['used'].bits[i] == z3.Or([cidx(*plays[j]) == i for j in range(4)]) for i in range(52)] +
                   [postB['hands'][p].bits[i] == z3.And(deal[p].bits[i], z3.Not(z3.Or([cidx(*plays[j]) == i for j in range(4)])))
                    for p in range(1, 5) for i in range(52)]))
        return dict(outcome='cloned', checks=chk, cex=cex)
    return hx.explore_case(path, dict(max_paths=20000))


# --------------------------------------------------------------------------
# H2: BMC from the constructor, symbolic deal, first n plays by the seat on turn (+ one arbitrary attempt)
# --------------------------------------------------------------------------
def case_bmc(props, n, declarer):
    """n plays by (seat on turn, symbolic card it holds) from the real constructor; declarer concrete."""
    from bridge_env import Hands, Player, PlayingPhaseWithHands, Pair

    def path(eng):
        eng.summarize.add(PlayingPhaseWithHands.calc_highest)
        c, dom, v = sym_contract()
        eng.assume(dom)
        eng.assume(v['dcl'] == declarer)
        hs = {p: cardmod.fresh_cardset(f'hand{p}') for p in range(1, 5)}
        for i in range(52):
            bits = [hs[p].bits[i] for p in range(1, 5)]
            eng.assume(z3.And([z3.Not(z3.And(bits[a], bits[b])) for a in range(4) for b in range(a + 1, 4)]))
        for p in range(1, 5):
            eng.assume(z3.And(hs[p].axioms(), hs[p].n == 13))
        deal = {p: hs[p].copy() for p in range(1, 5)}
        hands = SObj(Hands, {SEATS[p]: hs[p] for p in range(1, 5)})
        c.attrs['declarer'] = Player(declarer)
        obj = eng.construct(PlayingPhaseWithHands, [c, hands], {})
        plays = [(z3.Int(f'p{k}_rank'), z3.Int(f'p{k}_suit')) for k in range(n)]
        chk = []

        def add(tags, label, cond):
            for p in sorted(tags & props):
                chk.append((f'{p}: {label}', cond))
        trump = suit_of_bid(v['b'])
        leader = z3.IntVal(declarer % 4 + 1)
        ns, ew = z3.IntVal(0), z3.IntVal(0)
        outcome = 'ran'
        for k, (r, s) in enumerate(plays):
            eng.assume(z3.And(2 <= r, r <= 14, 1 <= s, s <= 4))
            pos = k % 4
            turn = (leader - 1 + pos) % 4 + 1
            st = read_state(obj, dict(b=v['b']))
            add({'C04', 'C05'}, f'play {k}: seat on turn is leader + position', st['A'] == turn)
            # the reference's view of who holds the card: dealt to that seat and not among the earlier plays
            ci = cidx(r, s)
            earlier = z3.Or([ci == cidx(*plays[j]) for j in range(k)]) if k else z3.BoolVal(False)
            holds = z3.And(z3.Or([z3.And(turn == p, z3.Or([z3.And(ci == i, deal[p].bits[i]) for i in range(52)]))
                                  for p in range(1, 5)]), z3.Not(earlier))
            try:
                eng.call_function(PlayingPhaseWithHands.play_card_by_player,
                                  [obj, cardmod.sym_card(r, s), SEnum(Player, turn)], {})
            except symx.RaiseEx:
                add({'C05'}, f'play {k}: refused only when the seat on turn does not hold the card', z3.Not(holds))
                outcome = 'refused'
                break
            add({'C05'}, f'play {k}: accepted only when the seat on turn holds the card (never a card played before)', holds)
            post = read_state(obj, dict(b=v['b']))
            if pos == 3:
                four = plays[k - 3:k + 1]
                w = ref_winner(four, trump)
                winner = (leader - 1 + w) % 4 + 1
                ns = ns + z3.If(side(winner) == 1, 1, 0)
                ew = ew + z3.If(side(winner) == 2, 1, 0)
                th_ok = z3.BoolVal(False)
                happ = post['hist_app']
                if len(happ) == k // 4 + 1:
                    th = happ[-1]
                    g = (lambda key: th.attrs[key]) if isinstance(th, SObj) else (lambda key: getattr(th, key))
                    cs4 = list(g('cards'))
                    if len(cs4) == 4:
                        th_ok = z3.And([zenum(g('leader')) == leader] +
                                       [z3.And(zint(c4.attrs['rank']) == rr, zenum(c4.attrs['suit']) == ss)
                                        for (rr, ss), c4 in zip(four, cs4)])
                add({'C04'}, f'trick {k // 4 + 1}: recorded with its actual leader and the four cards in order', th_ok)
                leader = winner
                add({'C04'}, f'trick {k // 4 + 1}: winner leads the next trick and is on turn; counts follow the winners',
                    z3.And(post['L'] == winner, post['A'] == winner, post['ns'] == ns, post['ew'] == ew,
                           post['T'] == k // 4 + 2, z3.BoolVal(post['t'] == 0)))
            # conservation: remaining hands and played cards partition the deal
            cons = []
            for i in range(52):
                played = z3.Or([cidx(*plays[j]) == i for j in range(k + 1)])
                cons.append(post['used'].bits[i] == played)
                for p in range(1, 5):
                    cons.append(post['hands'][p].bits[i] == z3.And(deal[p].bits[i], z3.Not(played)))
            add({'C05'}, f'after play {k}: hands and played cards partition the original deal', z3.And(cons))

        def cex(m):
            ev = lambda z: hx.mval(m, z)
            dl = {p: [i for i in range(52) if ev(deal[p].bits[i]) is True] for p in range(1, 5)}
            # repair cardinalities (weak size axioms): keep the cards that are played with their owners
            pl = [(ev(r) , ev(s)) for r, s in plays]
            return {'kind': 'play_bmc', 'props': sorted(props),
                    'contract': {'bid': ev(v['b']), 'x': ev(v['x']), 'xx': ev(v['xx']), 'vul': ev(v['vul']), 'declarer': declarer},
                    'deal': {str(p): dl[p] for p in range(1, 5)},
                    'cards': [(s - 1) * 13 + r - 2 for r, s in pl]}
        return dict(outcome=outcome, checks=chk, cex=cex)
    return hx.explore_case(path, dict(max_paths=100000))


COMMON_ASSUMPTIONS = [
    'a Set[Card] is modelled as 52 Booleans plus a size term maintained by add/remove; only 0 <= size <= 52 and '
    '(size = 0 iff no bit set) are axioms, so pre-states are over-approximated (never under-approximated)',
    'enum members are identified by their integer value',
    'PlayingPhase.calc_highest is pure and is summarised as one ite term per call site (all its paths explored)',
    'PlayingHistory._history is append-only and its old entries are not read by the step (checked: an unsupported read stops the run)',
]


# --------------------------------------------------------------------------
# observer (single-seat replica): product step with the full-information game
# --------------------------------------------------------------------------
def _pick(sel, sets):
    """CardSet equal to sets[p] where sel == p (sel a z3 Int 1..4)"""
    bits = [z3.Or([z3.And(sel == p, sets[p].bits[i]) for p in range(1, 5)]) for i in range(52)]
    n = sets[4].n
    for p in (3, 2, 1):
        n = z3.If(sel == p, sets[p].n, n)
    return CardSet(bits, n)


def fresh_observer(eng, st, dummy_known):
    from bridge_env import ObservedPlayingPhase, Pair, Player, Suit
    from bridge_env.playing_phase import PlayingHistory
    obs = z3.Int('observer')
    dummy = (st['dcl'] + 1) % 4 + 1
    o = SObj(ObservedPlayingPhase, dict(
        contract=st['contract'], trump=SEnum(Suit, suit_of_bid(st['b'])), declarer=SEnum(Player, st['dcl']),
        dummy=SEnum(Player, dummy), leader=SEnum(Player, st['L']), active_player=SEnum(Player, st['A']),
        _trick_cards=[cardmod.sym_card(r, s) for r, s in st['table']], trick_num=SInt(st['T']),
        playing_history=SObj(PlayingHistory, {'_history': SLog(st['base']), '_contract': st['contract']}),
        used_cards=st['used'].copy(), taken_tricks={Pair.NS: SInt(st['ns']), Pair.EW: SInt(st['ew'])},
        _player=SEnum(Player, obs), _hand=_pick(obs, st['hands']),
        _dummy_hand=_pick(dummy, st['hands']) if dummy_known else None))
    return o, obs


def read_observer(o, eng=None):
    """with eng: the observer's own hand and its view of dummy are read through the public accessors"""
    from bridge_env import ObservedPlayingPhase, Pair
    A = o.attrs
    if eng is not None:
        fr = symx.Frame(eng, ObservedPlayingPhase.play_card_by_player, {})
        A = dict(A)
        A['_hand'], A['_dummy_hand'] = fr.getattr(o, 'hand'), fr.getattr(o, 'dummy_hand')
        fr.getattr(A['playing_history'], 'history')
    tc = A['_trick_cards']
    h = A['playing_history'].attrs['_history']
    return dict(L=zenum(A['leader']), A=zenum(A['active_player']), T=zint(A['trick_num']), t=len(tc),
                table=[(zint(c.attrs['rank']) if isinstance(c, SObj) else z3.IntVal(c.rank),
                        zenum(c.attrs['suit']) if isinstance(c, SObj) else z3.IntVal(c.suit.value)) for c in tc],
                used=A['used_cards'], ns=zint(A['taken_tricks'][Pair.NS]), ew=zint(A['taken_tricks'][Pair.EW]),
                hist_app=list(h.app) if isinstance(h, SLog) else list(h),
                base=h.base + len(h.app) if isinstance(h, SLog) else z3.IntVal(len(h)), hand=A['_hand'], dummy_hand=A['_dummy_hand'],
                contract_obj=A['contract'], declarer=zenum(A['declarer']), dummy=zenum(A['dummy']), trump=zenum(A['trump']))


def _th_fields(th):
    g = (lambda k: th.attrs[k]) if isinstance(th, SObj) else (lambda k: getattr(th, k))
    return zenum(g('leader')), [(zint(c.attrs['rank'] if isinstance(c, SObj) else c.rank),
                                 zenum(c.attrs['suit'] if isinstance(c, SObj) else c.suit)) for c in g('cards')]


def case_observer(props, t, mode, turn=None, over=False):
    """mode: 'known' (observer is not dummy and has been shown dummy's cards) | 'opening' (trick 1, nothing played, dummy
    not yet disclosed; the protocol discloses it right after this play) | 'is_dummy' (the observer sits in dummy's seat:
    the bundled client never sets a dummy hand there) | 'is_dummy_alias' (observer in dummy's seat and set_dummy_hand was
    given the SAME set object as its own hand) | 'is_dummy_copy' (... an equal but separate set)"""
    from bridge_env import ObservedPlayingPhase, Player, PlayingPhaseWithHands
    dummy_known = mode == 'known'

    def path(eng):
        eng.summarize.add(PlayingPhaseWithHands.calc_highest)
        F, st = fresh_state(eng, t)
        eng.assume(set_axioms(st))
        eng.assume(z3.And(list(invariant(st, over).values())))
        if over:
            eng.assume(st['T'] == 14)        # play is over: all 52 cards played, every hand empty
        O, obs = fresh_observer(eng, st, dummy_known)
        eng.assume(z3.And(1 <= obs, obs <= 4))
        if turn is not None:
            eng.assume(st['A'] == turn)          # splits the work; the case list covers all four seats
        if mode == 'opening':
            eng.assume(z3.And(st['T'] == 1, obs != (st['dcl'] + 1) % 4 + 1))   # t == 0 by construction of the case list
        elif mode in ('is_dummy', 'is_dummy_alias', 'is_dummy_copy'):
            eng.assume(obs == (st['dcl'] + 1) % 4 + 1)
            if mode != 'is_dummy':
                own = O.attrs['_hand']
                eng.call_function(ObservedPlayingPhase.set_dummy_hand, [O, own if mode == 'is_dummy_alias' else own.copy()], {})
        else:
            eng.assume(obs != (st['dcl'] + 1) % 4 + 1)
        cr, cs_, seat = z3.Int('card_rank'), z3.Int('card_suit'), z3.Int('seat')
        eng.assume(z3.And(2 <= cr, cr <= 14, 1 <= cs_, cs_ <= 4, 1 <= seat, seat <= 4))
        pre = snapshot(st)
        preO = read_observer(O, eng)
        preO['hand'], preO['used'] = preO['hand'].copy(), preO['used'].copy()
        preO['dummy_hand'] = preO['dummy_hand'].copy() if preO['dummy_hand'] is not None else None
        ci = cidx(cr, cs_)
        dummy = (st['dcl'] + 1) % 4 + 1

        def refine(eng, neg, m):
            return synth_play(eng, neg, pre, (cr, cs_), seat,
                              lambda mm: {'props': sorted(props), 'kind': 'observer', 'observer': hx.mval(mm, obs), 'mode': mode},
                              max_trick=14 if over else 13, min_trick=14 if over else 1)
        chk = []

        def add(tags, label, cond):
            for p in sorted(tags & props):
                chk.append((f'{p}: {label}', cond))
        try:
            eng.call_function(PlayingPhaseWithHands.play_card_by_player, [F, cardmod.sym_card(cr, cs_), SEnum(Player, seat)], {})
            f_ok = True
        except symx.RaiseEx as e:
            if unknown_field(e.exc):
                return dict(outcome=NA, checks=[], sample=str(e.exc))
            f_ok = False
        try:
            eng.call_function(ObservedPlayingPhase.play_card_by_player, [O, cardmod.sym_card(cr, cs_), SEnum(Player, seat)], {})
            o_ok, o_exc = True, None
        except symx.RaiseEx as e:
            if unknown_field(e.exc):
                return dict(outcome=NA, checks=[], sample=str(e.exc))
            o_ok, o_exc = False, e.exc
        postO = read_observer(O, eng)
        in_hand = z3.Or([z3.And(ci == i, preO['hand'].bits[i]) for i in range(52)])
        in_dummy = z3.Or([z3.And(ci == i, preO['dummy_hand'].bits[i]) for i in range(52)]) if dummy_known else z3.BoolVal(False)
        o_should = z3.And(seat == st['A'],
                          z3.Implies(seat == obs, in_hand),
                          z3.Implies(z3.And(seat == dummy, seat != obs), in_dummy))
        if not o_ok:
            add({'C11'}, 'the observer never rejects a play that the full-information game accepted', z3.BoolVal(not f_ok))
            add({'C05'}, 'observer refuses only out of turn, an unheld own card, or a dummy card it cannot see or dummy does not hold',
                z3.Not(o_should))
            same = [preO['L'] == postO['L'], preO['A'] == postO['A'], preO['T'] == postO['T'], z3.BoolVal(postO['t'] == t),
                    preO['ns'] == postO['ns'], preO['ew'] == postO['ew'], postO['base'] == preO['base'],
                    bits_eq(preO['hand'], postO['hand']), bits_eq(preO['used'], postO['used'])]
            if dummy_known or mode in ('is_dummy_alias', 'is_dummy_copy'):
                same.append(bits_eq(preO['dummy_hand'], postO['dummy_hand']) if postO['dummy_hand'] is not None else z3.BoolVal(False))
            else:
                same.append(z3.BoolVal(postO['dummy_hand'] is None))
            add({'C05'}, 'a play refused by the observer changes nothing in it', z3.And(same))
            return dict(outcome='observer refused', checks=chk, refine=refine)
        add({'C05'}, 'observer accepts only from the seat on turn, own cards only if held, dummy cards only if disclosed and held', o_should)
        if not f_ok:
            # a card of a concealed hand that its owner does not hold: the observer cannot know; no claim
            return dict(outcome='observer accepted what the full game refused (concealed hand)', checks=chk, refine=refine)
        postF = read_state(F, st)
        if mode == 'opening':
            # protocol: dummy's cards are disclosed after the opening lead and before the next card
            eng.call_function(ObservedPlayingPhase.set_dummy_hand, [O, _pick(dummy, postF['hands'])], {})
            postO = read_observer(O, eng)
        rel = [postO['L'] == postF['L'], postO['A'] == postF['A'], postO['T'] == postF['T'], z3.BoolVal(postO['t'] == postF['t']),
               postO['ns'] == postF['ns'], postO['ew'] == postF['ew'], postO['base'] == postF['base'],
               postO['declarer'] == postF['declarer'], postO['dummy'] == postF['dummy'], postO['trump'] == postF['trump'],
               z3.BoolVal(postO['contract_obj'] is postF['contract_obj'])]
        if postO['t'] == postF['t']:
            rel += [z3.And(a[0] == b[0], a[1] == b[1]) for a, b in zip(postO['table'], postF['table'])]
        if len(postO['hist_app']) == len(postF['hist_app']):
            for a, b in zip(postO['hist_app'], postF['hist_app']):
                la, ca = _th_fields(a)
                lb, cb = _th_fields(b)
                rel.append(la == lb)
                rel.append(z3.BoolVal(len(ca) == len(cb)))
                rel += [z3.And(x[0] == y[0], x[1] == y[1]) for x, y in zip(ca, cb)]
        else:
            rel.append(z3.BoolVal(False))
        add({'C11'}, 'observer and full game agree on contract, declarer, turn, trick number, leader, table, trick history and counts',
            z3.And(rel))
        mine = _pick(obs, postF['hands'])
        add({'C11', 'C05'}, 'observer\'s own hand = that seat\'s hand in the full game', bits_eq(postO['hand'], mine))
        dh = postO['dummy_hand']
        if mode == 'is_dummy':
            add({'C11', 'C05'}, 'an observer in dummy\'s seat keeps no separate dummy hand', z3.BoolVal(dh is None))
        elif mode == 'is_dummy_copy':
            pass        # a separate copy handed to an observer that IS dummy: no claim about that copy (own hand is checked above)
        else:
            add({'C11', 'C05'}, 'observer\'s view of dummy = dummy\'s hand in the full game',
                bits_eq(dh, _pick(dummy, postF['hands'])) if dh is not None else z3.BoolVal(False))
        return dict(outcome='both accepted', checks=chk, refine=refine)
    return hx.explore_case(path, dict(max_paths=50000))


# --------------------------------------------------------------------------
# observer BMC: full game x observer from the REAL constructors, symbolic deal, first n accepted plays
# (decides alone when the observer keeps state the product step's invariant does not describe)
# --------------------------------------------------------------------------
def case_bmc_observer(props, n, declarer, obs_seat):
    from bridge_env import Hands, ObservedPlayingPhase, Pair, Player, PlayingPhaseWithHands

    def path(eng):
        eng.summarize.add(PlayingPhaseWithHands.calc_highest)
        c, dom, v = sym_contract()
        eng.assume(dom)
        eng.assume(v['dcl'] == declarer)
        hs = {p: cardmod.fresh_cardset(f'hand{p}') for p in range(1, 5)}
        for i in range(52):
            bits = [hs[p].bits[i] for p in range(1, 5)]
            eng.assume(z3.And([z3.Not(z3.And(bits[a], bits[b])) for a in range(4) for b in range(a + 1, 4)]))
        for p in range(1, 5):
            eng.assume(z3.And(hs[p].axioms(), hs[p].n == 13))
        deal = {p: hs[p].copy() for p in range(1, 5)}
        c.attrs['declarer'] = Player(declarer)
        dummy = (declarer + 1) % 4 + 1
        F = eng.construct(PlayingPhaseWithHands, [c, SObj(Hands, {SEATS[p]: hs[p] for p in range(1, 5)})], {})
        O = eng.construct(ObservedPlayingPhase, [c, Player(obs_seat), deal[obs_seat].copy()], {})
        plays = [(z3.Int(f'p{k}_rank'), z3.Int(f'p{k}_suit')) for k in range(n)]
        seats = []
        chk = []
        done = [0]

        def add(tags, label, cond):
            for p in sorted(tags & props):
                chk.append((f'{p}: {label}', cond))

        def cex(m):
            ev = lambda z: hx.mval(m, z)
            k = done[0]
            steps = [[(ev(s) - 1) * 13 + ev(r) - 2, ev(seats[j])] for j, (r, s) in enumerate(plays[:k + 1])]
            return {'kind': 'observer', 'props': sorted(props), 'observer': obs_seat, 'mode': 'bmc',
                    'contract': {'bid': ev(v['b']), 'x': ev(v['x']), 'xx': ev(v['xx']), 'vul': ev(v['vul']), 'declarer': declarer},
                    'deal': {str(p): [i for i in range(52) if ev(deal[p].bits[i]) is True] for p in range(1, 5)},
                    'plays': steps[:-1], 'attempt': steps[-1]}
        outcome = 'ran'
        for k, (r, s) in enumerate(plays):
            done[0] = k
            eng.assume(z3.And(2 <= r, r <= 14, 1 <= s, s <= 4))
            stF = read_state(F, dict(b=v['b']))
            turn = stF['A']
            seats.append(turn)
            try:
                eng.call_function(PlayingPhaseWithHands.play_card_by_player, [F, cardmod.sym_card(r, s), SEnum(Player, turn)], {})
            except symx.RaiseEx:
                outcome = 'full game refused'        # not a play the table manager accepted: nothing to compare
                break
            try:
                eng.call_function(ObservedPlayingPhase.play_card_by_player, [O, cardmod.sym_card(r, s), SEnum(Player, turn)], {})
            except symx.RaiseEx:
                add({'C11'}, f'play {k}: the observer never rejects a play that the full-information game accepted', z3.BoolVal(False))
                outcome = 'observer refused'
                break
            postF = read_state(F, dict(b=v['b']))
            if k == 0 and obs_seat != dummy:
                eng.call_function(ObservedPlayingPhase.set_dummy_hand, [O, postF['hands'][dummy].copy()], {})
            postO = read_observer(O, eng)
            rel = [postO['L'] == postF['L'], postO['A'] == postF['A'], postO['T'] == postF['T'], z3.BoolVal(postO['t'] == postF['t']),
                   postO['ns'] == postF['ns'], postO['ew'] == postF['ew'], postO['base'] == postF['base'],
                   postO['declarer'] == postF['declarer'], postO['dummy'] == postF['dummy'], postO['trump'] == postF['trump']]
            if postO['t'] == postF['t']:
                rel += [z3.And(a[0] == b[0], a[1] == b[1]) for a, b in zip(postO['table'], postF['table'])]
            if len(postO['hist_app']) == len(postF['hist_app']):
                for a, b in zip(postO['hist_app'], postF['hist_app']):
                    la, ca = _th_fields(a)
                    lb, cb = _th_fields(b)
                    rel += [la == lb, z3.BoolVal(len(ca) == len(cb))] + [z3.And(x[0] == y[0], x[1] == y[1]) for x, y in zip(ca, cb)]
            else:
                rel.append(z3.BoolVal(False))
            add({'C11'}, f'after play {k}: observer and full game agree on turn, trick number, leader, table, trick history and counts',
                z3.And(rel))
            add({'C11', 'C05'}, f'after play {k}: observer\'s own hand = that seat\'s hand in the full game',
                bits_eq(postO['hand'], postF['hands'][obs_seat]))
            if obs_seat != dummy:
                dh = postO['dummy_hand']
                add({'C11', 'C05'}, f'after play {k}: observer\'s view of dummy = dummy\'s hand in the full game',
                    bits_eq(dh, postF['hands'][dummy]) if dh is not None else z3.BoolVal(False))
        return dict(outcome=outcome, checks=chk, cex=cex)
    return hx.explore_case(path, dict(max_paths=100000))


# --------------------------------------------------------------------------
# C06: playable set = follow-suit rule
# --------------------------------------------------------------------------
def case_available(props, led):
    """PlayingPhase.available_cards(hand, first_card) for an arbitrary subset of the pack"""
    from bridge_env import PlayingPhase

    def path(eng):
        hand = cardmod.fresh_cardset('hand')
        eng.assume(hand.axioms())
        pre = hand.copy()
        lr, ls = z3.Int('led_rank'), z3.Int('led_suit')
        if led:
            eng.assume(z3.And(2 <= lr, lr <= 14, 1 <= ls, ls <= 4))
            first = cardmod.sym_card(lr, ls)
        else:
            first = None

        def cex(m):
            return {'kind': 'available', 'props': sorted(props), 'hand': [i for i in range(52) if hx.mval(m, pre.bits[i]) is True],
                    'led': [hx.mval(m, lr), hx.mval(m, ls)] if led else None}
        try:
            r = eng.call_function(PlayingPhase.available_cards, [hand, first], {})
        except symx.RaiseEx:
            return dict(outcome='raise', cex=cex, checks=[(f'{p}: available_cards does not raise', False) for p in sorted(props)])
        if not isinstance(r, CardSet):
            return dict(outcome='not a set', cex=cex, checks=[(f'{p}: result is a set of cards', False) for p in sorted(props)])
        want = ref_available(pre.bits, ls if led else z3.IntVal(0))
        chk = [('playable set = whole hand when leading or void in the suit led, else the cards of the suit led',
                z3.And([r.bits[i] == want[i] for i in range(52)])),
               ('never a card outside the hand', z3.And([z3.Implies(r.bits[i], pre.bits[i]) for i in range(52)])),
               ('never empty while the hand is non-empty', z3.Implies(z3.Or(pre.bits), z3.Or(r.bits))),
               ('the hand itself is not modified', bits_eq(hand, pre))]
        return dict(outcome='led' if led else 'leading', cex=cex, checks=[(f'{p}: {l}', c) for l, c in chk for p in sorted(props)])
    return hx.explore_case(path)


def case_available_state(props, t, which):
    """which: 'full' current_available_cards_in_hand(seat) | 'own' observer's own hand | 'dummy' observer's dummy hand
    | 'random' RandomPlay.play with random.choice an arbitrary element"""
    import random
    from bridge_env import ObservedPlayingPhase, Player, PlayingPhaseWithHands
    from bridge_env.network_bridge.playing_system import RandomPlay

    def path(eng):
        F, st = fresh_state(eng, t)
        eng.assume(set_axioms(st))
        eng.assume(z3.And(list(invariant(st).values())))
        seat = z3.Int('seat')
        eng.assume(z3.And(1 <= seat, seat <= 4))
        led = st['table'][0][1] if t else z3.IntVal(0)
        pre = snapshot(st)

        def cexf(extra):
            def refine(eng, neg, m):
                return synth_play(eng, neg, pre, (z3.IntVal(2), z3.IntVal(1)), seat,
                                  lambda mm: dict({'props': sorted(props), 'kind': 'available_state', 'which': which},
                                                  **{k: hx.mval(mm, z) for k, z in extra.items()}))
            return refine
        if which == 'full':
            hand = _pick(seat, pre['hands'])
            try:
                r = eng.call_function(PlayingPhaseWithHands.current_available_cards_in_hand, [F, SEnum(Player, seat)], {})
            except symx.RaiseEx as e:
                if unknown_field(e.exc):
                    return dict(outcome=NA, checks=[], sample=str(e.exc))
                return dict(outcome='raise', refine=cexf({}), checks=[(f'{p}: does not raise', False) for p in sorted(props)])
            refine = cexf({})
        elif which in ('own', 'dummy'):
            O, obs = fresh_observer(eng, st, True)
            eng.assume(z3.And(1 <= obs, obs <= 4, seat == (obs if which == 'own' else (st['dcl'] + 1) % 4 + 1)))
            hand = _pick(seat, pre['hands'])
            fn = ObservedPlayingPhase.current_available_cards_in_hand if which == 'own' else \
                ObservedPlayingPhase.current_available_cards_in_dummy_hand
            refine = cexf({'observer': obs})
            try:
                r = eng.call_function(fn, [O], {})
            except symx.RaiseEx as e:
                if unknown_field(e.exc):
                    return dict(outcome=NA, checks=[], sample=str(e.exc))
                return dict(outcome='raise', refine=refine, checks=[(f'{p}: does not raise', False) for p in sorted(props)])
        else:
            hand = _pick(seat, pre['hands'])
            pick_r, pick_s = z3.Int('choice_rank'), z3.Int('choice_suit')
            state = {}

            def choice(eng_, args, kw):
                seq = args[-1]
                if not isinstance(seq, CardSet):
                    raise symx.Unsupported('random.choice on ' + type(seq).__name__)
                if not eng_.decide(z3.Or(seq.bits)):
                    raise symx.RaiseEx(IndexError('Cannot choose from an empty sequence'))
                eng_.assume(z3.And(2 <= pick_r, pick_r <= 14, 1 <= pick_s, pick_s <= 4,
                                   z3.Or([z3.And(cidx(pick_r, pick_s) == i, seq.bits[i]) for i in range(52)])))
                state['from'] = seq
                return cardmod.sym_card(pick_r, pick_s)
            eng.stubs[random.choice] = choice
            want = ref_available(hand.bits, led)
            refine = cexf({})
            try:
                c = eng.call_function(RandomPlay.play, [SObj(RandomPlay, {}), hand.copy(), F], {})
            except symx.RaiseEx as e:
                return dict(outcome='example player raised', refine=refine,
                            checks=[(f'{p}: the example player fails only on an empty hand', z3.Not(z3.Or(hand.bits))) for p in sorted(props)])
            ci = cidx(zint(c.attrs['rank']), zenum(c.attrs['suit']))
            return dict(outcome='example player chose', refine=refine,
                        checks=[(f'{p}: the example player chooses from the playable set', z3.Or([z3.And(ci == i, want[i]) for i in range(52)]))
                                for p in sorted(props)])
        if not isinstance(r, CardSet):
            return dict(outcome='not a set', refine=refine, checks=[(f'{p}: result is a set of cards', False) for p in sorted(props)])
        want = ref_available(hand.bits, led)
        chk = [('playable set in a board in progress = follow-suit rule on the first card of the trick',
                z3.And([r.bits[i] == want[i] for i in range(52)])),
               ('never empty while the hand is non-empty', z3.Implies(z3.Or(hand.bits), z3.Or(r.bits)))]
        return dict(outcome=f'{which} hand, {t} on table', refine=refine, checks=[(f'{p}: {l}', c) for l, c in chk for p in sorted(props)])
    return hx.explore_case(path)


def case_available_sequence(props, obs_seat, n, declarer=1):
    """from the REAL constructor of the single-seat observer: query the playable sets, play a symbolic card by the seat on
    turn, query again ... (first trick, n <= 4 plays): every answer must be the follow-suit rule on the CURRENT hand - a
    memo that survives a play would answer from an earlier state"""
    from bridge_env import ObservedPlayingPhase, Player

    def path(eng):
        c, dom, v = sym_contract()
        eng.assume(dom)
        eng.assume(v['dcl'] == declarer)
        c.attrs['declarer'] = Player(declarer)
        dummy = (declarer + 1) % 4 + 1
        hs = {p: cardmod.fresh_cardset(f'hand{p}') for p in range(1, 5)}
        for i in range(52):
            bits = [hs[p].bits[i] for p in range(1, 5)]
            eng.assume(z3.And([z3.Not(z3.And(bits[a], bits[b])) for a in range(4) for b in range(a + 1, 4)]))
        for p in range(1, 5):
            eng.assume(z3.And(hs[p].axioms(), hs[p].n == 13))
        ref = {p: list(hs[p].bits) for p in range(1, 5)}
        obs = eng.construct(ObservedPlayingPhase, [c, Player(obs_seat), hs[obs_seat].copy()], {})
        plays = [(z3.Int(f'p{k}_rank'), z3.Int(f'p{k}_suit')) for k in range(n)]
        chk = []

        def cex(m):
            ev = lambda z: hx.mval(m, z)
            return {'kind': 'available_sequence', 'props': sorted(props), 'observer': obs_seat,
                    'contract': {'bid': ev(v['b']), 'x': ev(v['x']), 'xx': ev(v['xx']), 'vul': ev(v['vul']), 'declarer': declarer},
                    'deal': {str(p): [i for i in range(52) if ev(hs[p].bits[i]) is True] for p in range(1, 5)},
                    'cards': [(ev(s) - 1) * 13 + ev(r) - 2 for r, s in plays]}

        def query(when, led):
            for which, seat, fn in (('own', obs_seat, ObservedPlayingPhase.current_available_cards_in_hand),
                                    ('dummy', dummy, ObservedPlayingPhase.current_available_cards_in_dummy_hand)):
                if which == 'dummy' and (obs_seat == dummy or obs.attrs.get('_dummy_hand') is None):
                    continue
                try:
                    r = eng.call_function(fn, [obs], {})
                except symx.RaiseEx as e:
                    chk.append((f'{when}: playable set of the {which} hand can be queried ({e.exc!r})', False))
                    continue
                if not isinstance(r, CardSet):
                    chk.append((f'{when}: playable set of the {which} hand is a set of cards', False))
                    continue
                want = ref_available(ref[seat], led)
                chk.append((f'{when}: playable set of the {which} hand = follow-suit rule on the current hand',
                            z3.And([r.bits[i] == want[i] for i in range(52)])))
        led = z3.IntVal(0)
        query('before the opening lead', led)
        for k, (r, s) in enumerate(plays):
            turn = (declarer + k) % 4 + 1
            eng.assume(z3.And(2 <= r, r <= 14, 1 <= s, s <= 4))
            ci = cidx(r, s)
            eng.assume(z3.Or([z3.And(ci == i, ref[turn][i]) for i in range(52)]))       # the seat on turn plays a card it holds
            try:
                eng.call_function(ObservedPlayingPhase.play_card_by_player, [obs, cardmod.sym_card(r, s), Player(turn)], {})
            except symx.RaiseEx as e:
                chk.append((f'play {k}: a card held by the seat on turn is accepted ({e.exc!r})', False))
                break
            ref[turn] = [z3.And(ref[turn][i], ci != i) for i in range(52)]
            if k == 0:
                led = s
                if obs_seat != dummy:
                    dh = CardSet(list(ref[dummy]), z3.IntVal(13))
                    eng.call_function(ObservedPlayingPhase.set_dummy_hand, [obs, dh], {})
            if k < 3:
                query(f'after play {k}', led)
        return dict(outcome='query-play-query sequence', cex=cex, checks=[(f'{p}: {l}', c_) for l, c_ in chk for p in sorted(props)])
    return hx.explore_case(path, dict(max_paths=20000))
