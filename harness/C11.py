"""C11 — all replicas of a board agree with the table manager.

(a) Product induction (harness/play.py:case_observer): the full-information game and a single-seat observer (seat
symbolic, all four) start from related states - same contract, leader, turn, trick number, table, counts, history;
observer's hand = that seat's hand; dummy's hand known to the observer except before the opening lead or when it
sits in dummy's seat - take the SAME symbolic play; if the full game accepts, the observer must accept and the
relation must hold again (with the protocol's set_dummy_hand after the opening lead).
"""
from harness import play

PROPS = {'C11'}


def observer_cases(props, tier):
    cs = []
    for mode, ts in (('opening', (0,)), ('known', (0, 1, 2, 3)), ('is_dummy', (0, 1, 2, 3)),
                     ('is_dummy_alias', (0, 1, 2, 3)), ('is_dummy_copy', (0, 3))):
        for t in ts:
            for turn in range(1, 5):
                cs.append((play.case_observer, f'observer product step: {mode}, {t} cards on the table, seat {turn} on turn',
                           dict(props=props, t=t, mode=mode, turn=turn)))
    # after the 52nd card (every hand empty): whoever is asked to play, both games refuse and nothing changes
    for mode in ('known', 'is_dummy'):
        cs.append((play.case_observer, f'observer product step: {mode}, play is over (all 52 cards played)',
                   dict(props=props, t=0, mode=mode, turn=None, over=True)))
    return cs


SESSIONS = {'quick': ['S2', 'S4'], 'thorough': ['S2', 'S3', 'S4', 'S5', 'S6']}


def _replica_case(name):
    """(b)/(c): the bundled network clients of a recorded session against the table manager's log"""
    from engine import common
    from harness import transcripts
    common.setup_path()
    res = common.CaseResult(name)
    bad, r = transcripts.check_replicas(name, common.SEED)
    res.stats = dict(paths=1, queries=0, steps=len(r.get('replicas', [])))
    res.outcomes = {'network replicas compared': 1}
    res.samples = [{'session': name, 'replicas': len(r.get('replicas', [])), 'discrepancies': len(bad)}]
    res.detail = '; '.join(bad[:2])
    if bad == ['session did not complete']:
        res.status = 'inconclusive'
        res.detail = 'session did not complete (see C09)'
    elif bad:
        res.cex.append({'kind': 'replicas', 'session': name, 'seed': common.SEED, 'props': ['C11'], 'discrepancies': bad[:5]})
        res.status = 'cex'
    return res


def bmc_cases(props, tier):
    """both replicas from the REAL constructors with a symbolic deal: the first trick (quick) / six plays (thorough).  Decides alone
    when the observer keeps state that the product step's invariant does not describe (H1 'not applicable')."""
    n = 6 if tier == 'thorough' else 4
    return [(play.case_bmc_observer, f'observer BMC: first {n} plays from the constructors, declarer {d}, observer {o}',
             dict(props=props, n=n, declarer=d, obs_seat=o)) for d in range(1, 5) for o in range(1, 5)]


def cases(tier):
    cs = observer_cases(PROPS, tier) + bmc_cases(PROPS, tier)
    for n in SESSIONS['thorough' if tier == 'thorough' else 'quick']:
        cs.append((_replica_case, f'network clients of session {n}: local auction and observer of every board against the log', dict(name=n)))
    return cs


META = dict(
    level='model_checking',
    bounds={'(b),(c)': 'the four bundled clients of the recorded sessions S2, S4 (quick) / S2-S6: every board\'s local auction and single-seat observer compared with the table manager\'s log; completion of every client; all schedules of those sessions by C09',
            '(a2)': 'full game x observer from the real constructors, symbolic deal and contract, first 4 (quick) / 6 (thorough) accepted plays, every declarer x observer seat',
            '(a)': 'any trick 1..13, 0..3 cards on the table, any contract, any disjoint hands, any observer seat, any card and seat offered'},
    stubs=['logger calls skipped'],
    assumptions=play.COMMON_ASSUMPTIONS + ['the relation between replicas is the one printed in harness/play.py:case_observer; dummy is disclosed to an '
                                           'observer that is not dummy right after the opening lead (what the bundled client does)'],
    rule='feasible paths of the pair (full game, observer) on one symbolic play',
    explanation='product inductive step over bit-set hands',
    required_outcomes=[('both accepted', 'H1 not applicable'), ('observer refused', 'H1 not applicable'), 'ran', 'network replicas compared'],
)


def validate(tier):
    """translator validation: the interpreter in concrete mode against CPython on the functions this check encodes"""
    from engine import validate as v
    return v.run(['plays'], tier)
