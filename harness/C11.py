"""C11 — all replicas of a board agree with the table manager.

(a) Product induction (harness/play.py:case_observer): the full-information game and a single-seat observer (seat
symbolic, all four) start from related states - same contract, leader, turn, trick number, table, counts, history;
observer's hand = that seat's hand; dummy's hand known to the observer except before the opening lead or when it
sits in dummy's seat - take the SAME symbolic play; if the full game accepts, the observer must accept and the
relation must hold again (with the protocol's set_dummy_hand after the opening lead).
"""
from harness import play

PROPS = {'C11'}


def observer_cases(props, tier):
    cs = []
    for mode, ts in (('opening', (0,)), ('known', (0, 1, 2, 3)), ('is_dummy', (0, 1, 2, 3))):
        for t in ts:
            for turn in range(1, 5):
                cs.append((play.case_observer, f'observer product step: {mode}, {t} cards on the table, seat {turn} on turn',
                           dict(props=props, t=t, mode=mode, turn=turn)))
    return cs


def cases(tier):
    return observer_cases(PROPS, tier)


META = dict(
    level='model_checking',
    bounds={'(a)': 'any trick 1..13, 0..3 cards on the table, any contract, any disjoint hands, any observer seat, any card and seat offered'},
    stubs=['logger calls skipped'],
    assumptions=play.COMMON_ASSUMPTIONS + ['the relation between replicas is the one printed in harness/play.py:case_observer; dummy is disclosed to an '
                                           'observer that is not dummy right after the opening lead (what the bundled client does)'],
    rule='feasible paths of the pair (full game, observer) on one symbolic play',
    explanation='product inductive step over bit-set hands',
    required_outcomes=['both accepted', 'observer refused'],
)
