"""C09 — a session with four conforming clients always runs to completion, under every thread schedule.

Per session of the tier: (1) the REAL Server.run, its PlayerThreads and four bundled Clients are run over in-memory
sockets with recording wrappers around the real Event/Queue/Barrier/Thread/socket operations (engine/netrec.py);
(2) the per-thread traces are validated (single-producer/single-consumer channels; identical traces under a perturbed
schedule; the run completed, every client was sent 'End of session', the log parses and lists every board);
(3) all interleavings of those traces are encoded as one SMT problem (engine/po.py) and z3 is asked for a reachable
deadlock - unsat = every schedule runs to completion; (4) twins: 'all threads finished' must be sat, and the same
traces with one queue put deleted must have a deadlock (the query has teeth).  A deadlock model is forced on the real
threads (replay mode) and reported only if the real server then stops making progress.
"""
import json
import os
import sys
import time

import z3

from engine import common, po
from harness import sessions

TIERS = {'quick': ['S1', 'S2', 'S4', 'S5'], 'thorough': ['S1', 'S2', 'S3', 'S4', 'S5', 'S6']}


def analyse(name, seed=0):
    """returns dict with verdicts for one session"""
    out = dict(session=name, problems=[], stats={})
    t0 = time.time()
    r = sessions.record(name, seed)
    out['recorded_ops'] = sum(len(v) for v in r['traces'].values())
    out['threads'] = {k: len(v) for k, v in r['traces'].items()}
    if not r.get('completed'):
        # the natural schedule itself does not terminate: the reached state is the counterexample
        out['natural_stall'] = True
        out['blocked_at'] = r.get('blocked_at')
        out['record_result'] = {k: r.get(k) for k in ('clients', 'errors', 'server_exc', 'finished')}
        return out, r, dict(schedule=po.recorded_schedule(r['traces']), cut=r.get('blocked_at'))
    r2 = sessions.record(name, seed, perturb=seed * 7 + 3)
    out['stats']['record_s'] = round(time.time() - t0, 2)
    if not r2.get('completed'):
        out['natural_stall'] = True
        out['blocked_at'] = r2.get('blocked_at')
        out['record_result'] = {k: r2.get(k) for k in ('clients', 'errors', 'server_exc', 'finished')}
        return out, r2, dict(schedule=po.recorded_schedule(r2['traces']), cut=r2.get('blocked_at'))
    if po.signature(r['traces']) != po.signature(r2['traces']):
        out['problems'].append('per-thread traces differ between two schedules (not a Kahn network): the single-trace encoding is not justified')
    out['problems'] += po.structure_checks(r['traces'])
    # facts of the completed run (by determinism they hold for every completing schedule)
    boards, _ = sessions.session(name, seed)
    facts = []
    if any(v != 'End of session' for v in r['clients'].values()) or len(r['clients']) != 4:
        facts.append(f'not every client was sent End of session: {r["clients"]}')
    if r['errors'] or r.get('server_exc'):
        facts.append(f'a thread died: {r["errors"]} {r.get("server_exc")}')
    try:
        logs = json.loads(r['log_text'])['logs']
        if [l['board_id'] for l in logs] != [b.board_id for b in boards]:
            facts.append('the log does not list every board in order')
    except Exception as e:
        facts.append(f'the log is not a complete JSON document: {e!r}')
    unfinished = [t for t in r['traces'] if t not in r['finished'] and not t.startswith('unknown')]
    if unfinished:
        facts.append(f'threads not finished: {unfinished}')
    out['completed_run_facts'] = facts
    P = po.PO(r['traces'])
    out['notes'] = sorted(set(P.notes))
    res, m, dt = P.check(P.completion_query())
    out['completion_twin'] = res
    out['stats']['completion_s'] = round(dt, 2)
    res, m, dt = P.check(P.deadlock_query())
    out['deadlock'] = res
    out['stats']['deadlock_s'] = round(dt, 2)
    model_info = None
    if res == 'sat':
        sch, cut = P.schedule_from(m)
        model_info = dict(schedule=sch, cut=P.describe_cut(cut))
    # operations that do not wait (get_nowait, timed get, put on a full bounded queue): can one of them find its queue
    # empty (full) in some reachable state?  Then the real call raises and the thread leaves its recorded path.
    out['nonblocking_ops'] = len(P.nonblocking_ops())
    if model_info is None and P.nonblocking_ops():
        resn, mn, dtn = P.check(P.nonblock_fail_query())
        out['nonblock_fail'] = resn
        out['stats']['nonblock_s'] = round(dtn, 2)
        if resn == 'sat':
            sch, cut = P.schedule_from(mn)
            failing = [o for o in P.nonblocking_ops() if cut[o['thread']] == o['pos']
                       and not z3.is_true(mn.eval(P.enabled(o, at=None), model_completion=True))]
            sch = sch + [(o['thread'], o['idx']) for o in failing[:1]]
            model_info = dict(schedule=sch, cut=P.describe_cut(cut),
                              found='a non-blocking queue operation runs while its queue is empty (full): ' +
                                    ', '.join(f"{o['thread']}#{o['idx']} {o['kind']} {o['obj']}" for o in failing[:1]))
    last_put = [o for o in r['traces']['main'] if o['kind'] == 'q_put'][-1]
    P2 = po.PO(r['traces'], drop=('main', last_put['idx']))
    res2, _, dt2 = P2.check(P2.deadlock_query())
    out['seeded_bug_twin'] = res2
    out['stats']['seeded_s'] = round(dt2, 2)
    out['constraints'] = len(P.cons)
    return out, r, model_info


def replay_schedule(name, seed, schedule):
    r = sessions.record(name, seed, mode='replay', schedule=schedule, idle_s=3.0)
    return (not r.get('completed')), r


def _case(name):
    common.setup_path()
    res = common.CaseResult(name)
    out, r, model = analyse(name, common.SEED)
    res.stats = dict(paths=1, queries=3 + (1 if out.get('nonblock_fail') else 0), solver_s=sum(v for k, v in out.get('stats', {}).items() if k != 'record_s'),
                     sat=0, unsat=0, unknown=0, steps=out.get('recorded_ops', 0))
    res.samples = [{'session': name, 'threads': out.get('threads'), 'deadlock_query': out.get('deadlock'),
                    'completion_twin': out.get('completion_twin'), 'seeded_bug_twin': out.get('seeded_bug_twin'),
                    'solver_s': out.get('stats')}]
    res.outcomes = {'session analysed': 1}
    res.detail = json.dumps({k: v for k, v in out.items() if k not in ('threads',)}, default=str)[:1500]
    if out.get('natural_stall'):
        res.cex.append({'kind': 'schedule', 'session': name, 'seed': common.SEED, 'schedule': model['schedule'], 'cut': model['cut'],
                        'found': 'the recorded run itself stalled; its own operation order is the schedule',
                        'result': out.get('record_result')})
        res.status = 'cex'
        return res
    if out['problems']:
        res.status = 'inconclusive'
        res.detail = 'trace validation failed: ' + '; '.join(out['problems'][:3])
        return res
    if out['completed_run_facts']:
        res.cex.append({'kind': 'facts', 'session': name, 'seed': common.SEED, 'facts': out['completed_run_facts']})
        res.status = 'cex'
        return res
    if out['completion_twin'] != 'sat' or out['seeded_bug_twin'] != 'sat':
        res.status = 'inconclusive'
        res.detail = f'vacuity twins failed: completion {out["completion_twin"]}, seeded bug {out["seeded_bug_twin"]}'
        return res
    if out['deadlock'] == 'sat' or out.get('nonblock_fail') == 'sat':
        res.cex.append({'kind': 'schedule', 'session': name, 'seed': common.SEED, 'schedule': model['schedule'], 'cut': model['cut'],
                        'found': model.get('found', 'deadlock')})
        res.status = 'cex'
    elif out['deadlock'] != 'unsat' or out.get('nonblock_fail', 'unsat') != 'unsat':
        res.status = 'inconclusive'
        res.detail = f'deadlock query: {out["deadlock"]}; non-blocking operations query: {out.get("nonblock_fail")}'
    return res


def cases(tier):
    return [(_case, f'session {n}', dict(name=n)) for n in TIERS['thorough' if tier == 'thorough' else 'quick']]


META = dict(
    level='model_checking',
    bounds=lambda tier: {'sessions': {n: d for n, d in {
        'S1': 'two passed-out boards', 'S2': 'passed-out board then a played board', 'S3': 'two played boards',
        'S4': 'three boards: played, passed out, contested auction with double and redouble',
        'S5': 'one played board, clients arrive W S E N', 'S6': 'three played boards, clients arrive E N W S'}.items()
        if n in TIERS['thorough' if tier == 'thorough' else 'quick']},
        'schedules': 'ALL interleavings of the recorded synchronisation operations of the 9 threads (main, 4 seat threads, 4 clients) of each session',
        'outside': 'sessions other than those listed; more than 3 boards; real TCP behaviour'},
    stubs=['sockets are in-memory (sendall atomic per message, recv blocks until data or peer close)', 'server.time.sleep is a no-op',
           'the bundled RandomPlay is given a private generator per client (the bundled one shares the global generator between threads)'],
    assumptions=['Kahn determinism: per-thread operation sequences do not depend on the schedule - checked on every run by recording twice (second run with injected delays) and by the single-producer/single-consumer test',
                 'CPython semantics of Event (wait passes iff the flag is set at some moment after the call), Queue (FIFO), Barrier (generation counting), Thread.join',
                 'is_alive() results only decide whether a finished thread is joined later'],
    rule='one SMT problem per session over all interleavings; states = recorded operations, transitions = ordering/enabledness constraints',
    explanation='partial-order SMT encoding of the real threads\' recorded synchronisation traces; deadlock query unsat; twins sat',
    required_outcomes=['session analysed'],
)


def extra_cov(tier, results):
    return {'sessions': [r.samples[0] for r in results if r.samples]}


META['extra_cov'] = extra_cov
