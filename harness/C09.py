"""C09 — a session with four conforming clients always runs to completion, under every thread schedule.

Per session of the tier: (1) the REAL Server.run, its PlayerThreads and four bundled Clients are run over in-memory
sockets with recording wrappers around the real Event/Queue/Barrier/Thread/socket operations (engine/netrec.py);
(2) the per-thread traces are validated (single-producer/single-consumer channels; identical traces under a perturbed
schedule; the run completed, every client was sent 'End of session', the log parses and lists every board);
(3) all interleavings of those traces are encoded as one SMT problem (engine/po.py) and z3 is asked for a reachable
deadlock - unsat = every schedule runs to completion; (4) twins: 'all threads finished' must be sat, and the same
traces with one queue put deleted must have a deadlock (the query has teeth).  A deadlock model is forced on the real
threads (replay mode) and reported only if the real server then stops making progress.
"""
import json
import os
import sys
import time

import z3

from engine import common, po, segments
from harness import sessions

TIERS = {'quick': ['S1', 'S2', 'S4', 'S5'], 'thorough': ['S1', 'S2', 'S3', 'S4', 'S5', 'S6', 'S9']}


def analyse(name, seed=0):
    """returns dict with verdicts for one session"""
    out = dict(session=name, problems=[], stats={})
    t0 = time.time()
    r = sessions.record(name, seed)
    out['recorded_ops'] = sum(len(v) for v in r['traces'].values())
    out['threads'] = {k: len(v) for k, v in r['traces'].items()}
    if not r.get('completed'):
        # the natural schedule itself does not terminate: the reached state is the counterexample
        out['natural_stall'] = True
        out['blocked_at'] = r.get('blocked_at')
        out['record_result'] = {k: r.get(k) for k in ('clients', 'errors', 'server_exc', 'finished')}
        return out, r, dict(schedule=po.recorded_schedule(r['traces']), cut=r.get('blocked_at'))
    r2 = sessions.record(name, seed, perturb=seed * 7 + 3)
    out['stats']['record_s'] = round(time.time() - t0, 2)
    if not r2.get('completed'):
        out['natural_stall'] = True
        out['blocked_at'] = r2.get('blocked_at')
        out['record_result'] = {k: r2.get(k) for k in ('clients', 'errors', 'server_exc', 'finished')}
        return out, r2, dict(schedule=po.recorded_schedule(r2['traces']), cut=r2.get('blocked_at'))
    if po.signature(r['traces']) != po.signature(r2['traces']):
        out['problems'].append('per-thread traces differ between two schedules (not a Kahn network): the single-trace encoding is not justified')
    out['problems'] += po.structure_checks(r['traces'])
    # facts of the completed run (by determinism they hold for every completing schedule)
    boards, _ = sessions.session(name, seed)
    facts = []
    if any(v != 'End of session' for v in r['clients'].values()) or len(r['clients']) != 4:
        facts.append(f'not every client was sent End of session: {r["clients"]}')
    if r['errors'] or r.get('server_exc'):
        facts.append(f'a thread died: {r["errors"]} {r.get("server_exc")}')
    try:
        logs = json.loads(r['log_text'])['logs']
        if [l['board_id'] for l in logs] != [b.board_id for b in boards]:
            facts.append('the log does not list every board in order')
    except Exception as e:
        facts.append(f'the log is not a complete JSON document: {e!r}')
    unfinished = [t for t in r['traces'] if t not in r['finished'] and not t.startswith('unknown')]
    if unfinished:
        facts.append(f'threads not finished: {unfinished}')
    out['completed_run_facts'] = facts
    P = po.PO(r['traces'])
    out['notes'] = sorted(set(P.notes))
    res, m, dt = P.check(P.completion_query())
    out['completion_twin'] = res
    out['stats']['completion_s'] = round(dt, 2)
    res, m, dt = P.check(P.deadlock_query())
    out['deadlock'] = res
    out['stats']['deadlock_s'] = round(dt, 2)
    model_info = None
    if res == 'sat':
        sch, cut = P.schedule_from(m)
        model_info = dict(schedule=sch, cut=P.describe_cut(cut))
    # operations that do not wait (get_nowait, timed get, put on a full bounded queue): can one of them find its queue
    # empty (full) in some reachable state?  Then the real call raises and the thread leaves its recorded path.
    out['nonblocking_ops'] = len(P.nonblocking_ops())
    if model_info is None and P.nonblocking_ops():
        resn, mn, dtn = P.check(P.nonblock_fail_query())
        out['nonblock_fail'] = resn
        out['stats']['nonblock_s'] = round(dtn, 2)
        if resn == 'sat':
            sch, cut = P.schedule_from(mn)
            failing = [o for o in P.nonblocking_ops() if cut[o['thread']] == o['pos']
                       and not z3.is_true(mn.eval(P.enabled(o, at=None), model_completion=True))]
            sch = sch + [(o['thread'], o['idx']) for o in failing[:1]]
            model_info = dict(schedule=sch, cut=P.describe_cut(cut),
                              idle_s=max([3.0] + [float(o.get('timeout') or 0) + 3.0 for o in failing[:1]]),
                              found='an operation that does not wait (get_nowait / timed get / bounded put / timed join) runs while its condition does not hold: ' +
                                    ', '.join(f"{o['thread']}#{o['idx']} {o['kind']} {o['obj']}" for o in failing[:1]))
    last_put = [o for o in r['traces']['main'] if o['kind'] == 'q_put'][-1]
    P2 = po.PO(r['traces'], drop=('main', last_put['idx']))
    res2, _, dt2 = P2.check(P2.deadlock_query())
    if res2 == 'unsat' and P2.nonblocking_ops():
        # with operations that do not wait the missing message shows as one of them finding its condition false
        res2, _, dt3 = P2.check(P2.nonblock_fail_query())
        dt2 += dt3
    out['seeded_bug_twin'] = res2
    out['stats']['seeded_s'] = round(dt2, 2)
    out['constraints'] = len(P.cons)
    if model_info is None and res == 'unsat':
        out['segments'] = analyse_segments(r['traces'])
    return out, r, model_info


def analyse_segments(traces):
    """the session cut at its full synchronisations (engine/segments.py): one stand-alone deadlock query per segment, the items
    pending at every board boundary, the signatures of the segments"""
    segs, problems = segments.segments(traces)
    out = dict(problems=list(problems), segments=[], solver_s=0.0)
    pend = [sg['pending'] for sg in segs if sg['index'] > 0]
    if pend and any(p != pend[0] for p in pend):
        out['problems'].append(f'the items pending at the board boundaries differ: {pend}')
    out['pending_at_every_board_boundary'] = pend[0] if pend else None
    for sg in segs:
        a = segments.analyse(sg)
        out['solver_s'] += a['solver_s']
        out['segments'].append(dict(name=sg['name'], signature=segments.signature(sg), ops=a['ops'], deadlock=a['deadlock'],
                                    completion_twin=a['completion'], nonblock_fail=a['nonblock_fail'], solver_s=a['solver_s']))
        if a['deadlock'] != 'unsat' or a['completion'] != 'sat' or a['nonblock_fail'] not in (None, 'unsat'):
            out['problems'].append(f'segment "{sg["name"]}": deadlock {a["deadlock"]}, completion {a["completion"]} although the whole session has no deadlock')
    # teeth: the largest segment with one queue put deleted must have a deadlock
    if segs and not out['problems']:
        big = max(segs, key=lambda sg: sum(len(v) for v in sg['traces'].values()))
        taken = {(o['obj'], o['k']) for ops in big['traces'].values() for o in ops if o['kind'] == 'q_get'}
        puts = [o for o in big['traces'].get('main', []) if o['kind'] == 'q_put' and (o['obj'], o['k']) in taken]   # taken inside the segment
        if puts:
            P2 = po.PO(big['traces'], drop=('main', puts[-1]['idx']), pre=big['pre'])
            r2, _, dt = P2.check(P2.deadlock_query())
            out['seeded_bug_twin'] = r2
            out['solver_s'] += round(dt, 3)
            if r2 != 'sat':
                out['problems'].append(f'segment twin (one put deleted) has no deadlock: {r2}')
    out['solver_s'] = round(out['solver_s'], 2)
    return out


def replay_schedule(name, seed, schedule):
    r = sessions.record(name, seed, mode='replay', schedule=schedule, idle_s=3.0)
    return (not r.get('completed')), r


def _case(name):
    common.setup_path()
    res = common.CaseResult(name)
    out, r, model = analyse(name, common.SEED)
    res.stats = dict(paths=1, queries=3 + (1 if out.get('nonblock_fail') else 0), solver_s=sum(v for k, v in out.get('stats', {}).items() if k != 'record_s'),
                     sat=0, unsat=0, unknown=0, steps=out.get('recorded_ops', 0))
    res.samples = [{'session': name, 'threads': out.get('threads'), 'deadlock_query': out.get('deadlock'),
                    'completion_twin': out.get('completion_twin'), 'seeded_bug_twin': out.get('seeded_bug_twin'),
                    'solver_s': out.get('stats')}]
    res.outcomes = {'session analysed': 1}
    res.detail = json.dumps({k: v for k, v in out.items() if k not in ('threads',)}, default=str)[:1500]
    if out.get('natural_stall'):
        res.cex.append({'kind': 'schedule', 'session': name, 'seed': common.SEED, 'schedule': model['schedule'], 'cut': model['cut'],
                        'found': 'the recorded run itself stalled; its own operation order is the schedule',
                        'result': out.get('record_result')})
        res.status = 'cex'
        return res
    if out['problems']:
        res.status = 'inconclusive'
        res.detail = 'trace validation failed: ' + '; '.join(out['problems'][:3])
        return res
    if out['completed_run_facts']:
        res.cex.append({'kind': 'facts', 'session': name, 'seed': common.SEED, 'facts': out['completed_run_facts']})
        res.status = 'cex'
        return res
    if out['completion_twin'] != 'sat' or out['seeded_bug_twin'] != 'sat':
        res.status = 'inconclusive'
        res.detail = f'vacuity twins failed: completion {out["completion_twin"]}, seeded bug {out["seeded_bug_twin"]}'
        return res
    sg = out.get('segments')
    if sg:
        res.samples[0]['segments'] = [{k: x[k] for k in ('name', 'signature', 'ops', 'deadlock', 'completion_twin', 'solver_s')} for x in sg['segments']]
        res.samples[0]['pending_at_every_board_boundary'] = sg.get('pending_at_every_board_boundary')
        res.samples[0]['segment_problems'] = sg['problems']
        res.stats['queries'] += 2 * len(sg['segments']) + 1
        res.stats['solver_s'] += sg['solver_s']
        if sg['problems']:
            # the decomposition is an ADDITIONAL claim (any number of boards); if it cannot be established the whole-session
            # verdict stands and the evidence says that the extension was not obtained
            print(f'NOTE: session {name}: segment decomposition not established: {sg["problems"][:2]}')
    if out['deadlock'] == 'sat' or out.get('nonblock_fail') == 'sat':
        res.cex.append({'kind': 'schedule', 'session': name, 'seed': common.SEED, 'schedule': model['schedule'], 'cut': model['cut'],
                        'found': model.get('found', 'deadlock'), 'idle_s': model.get('idle_s', 3.0)})
        res.status = 'cex'
    elif out['deadlock'] != 'unsat' or out.get('nonblock_fail', 'unsat') != 'unsat':
        res.status = 'inconclusive'
        res.detail = f'deadlock query: {out["deadlock"]}; non-blocking operations query: {out.get("nonblock_fail")}'
    return res


def cases(tier):
    return [(_case, f'session {n}', dict(name=n)) for n in TIERS['thorough' if tier == 'thorough' else 'quick']]


META = dict(
    level='model_checking',
    bounds=lambda tier: {'sessions': {n: d for n, d in {
        'S1': 'two passed-out boards', 'S2': 'passed-out board then a played board', 'S3': 'two played boards',
        'S4': 'three boards: played, passed out, contested auction with double and redouble',
        'S5': 'one played board, clients arrive W S E N', 'S6': 'three played boards, clients arrive E N W S',
        'S9': 'five boards: played, passed out, played, passed out, played'}.items()
        if n in TIERS['thorough' if tier == 'thorough' else 'quick']},
        'schedules': 'ALL interleavings of the recorded synchronisation operations of the 9 threads (main, 4 seat threads, 4 clients) of each session',
        'segments': 'each session is also cut at its full synchronisations (after every board\'s ready-for-cards barrier) and every segment gets a '
                    'stand-alone deadlock query with the pending channel contents as initial state (engine/segments.py). A deadlock state of a '
                    'session lies inside one segment (all five server threads pass every barrier generation; a parked client has consumed '
                    'everything its seat thread sent), and what is pending at a board boundary is the same at every boundary of every session '
                    '(checked on every run). Hence a session of ANY number of boards whose per-board segments are among the discharged ones '
                    '(listed by signature in coverage.sessions[*].segments) has no deadlock either',
        'outside': 'boards whose segment (sequence of synchronisation operations: who calls, who leads each trick, passed out or played, last or not) '
                   'is not among the discharged signatures; sessions whose whole-session query was not run beyond 3 (quick) / 5 (thorough) boards; real TCP behaviour'},
    stubs=['sockets are in-memory (sendall atomic per message, recv blocks until data or peer close)', 'server.time.sleep is a no-op',
           'the bundled RandomPlay is given a private generator per client (the bundled one shares the global generator between threads)'],
    assumptions=['Kahn determinism: per-thread operation sequences do not depend on the schedule - checked on every run by recording twice (second run with injected delays) and by the single-producer/single-consumer test',
                 'CPython semantics of Event (wait passes iff the flag is set at some moment after the call), Queue (FIFO), Barrier (generation counting), Thread.join',
                 'is_alive() results only decide whether a finished thread is joined later',
                 'for the extension to any number of boards: the synchronisation operations a thread performs between two board boundaries depend '
                 'only on that board, the decisions taken on it and whether it is the last one (the code holds no other cross-board state that '
                 'steers synchronisation; supported by identical signatures of equal boards at different positions, e.g. the prologue and the '
                 'passed-out boards of S1, S2, S9)'],
    rule='one SMT problem per session over all interleavings; states = recorded operations, transitions = ordering/enabledness constraints',
    explanation='partial-order SMT encoding of the real threads\' recorded synchronisation traces; deadlock query unsat; twins sat',
    required_outcomes=['session analysed'],
)


def extra_cov(tier, results):
    sess = [r.samples[0] for r in results if r.samples]
    sigs = sorted({x['signature'] for sm in sess for x in sm.get('segments', [])})
    return {'sessions': sess, 'distinct_segment_signatures_discharged': sigs,
            'segment_decomposition_established_for': [sm['session'] for sm in sess if sm.get('segments') and not sm.get('segment_problems')]}


META['extra_cov'] = extra_cov
