"""Protocol transcript oracle for recorded sessions (no solver needed: importable by the replayers).

From the boards, the messages the four clients SENT (their own decisions) and the rules of the game (reference models in
replay/r_auction.py and replay/r_play.py) it computes what every connection is entitled to receive, message by message,
and what the log must say.  Independent of the server code."""
import os
import sys

sys.path.insert(0, os.path.join(os.path.dirname(os.path.dirname(os.path.abspath(__file__))), 'replay'))
import r_auction  # noqa: E402
import r_play  # noqa: E402


# --------------------------------------------------------------------------
def expected_transcripts(boards, specs, result, partial=False):
    """what each bundled client's connection must receive, computed from the boards, the seats' own decisions
    (the messages the clients sent) and the rules; specs = client list in arrival order, result = netrec Session result"""
    import json
    from bridge_env import Bid, Card, Contract, Player
    from bridge_env.network_bridge.server import Server
    conn_of = {}
    for i, spec in enumerate(specs):
        if not spec.get('raw'):
            conn_of[spec['seat']] = i
    sent = {p: [m.rstrip('\r\n') for m in result['transcripts'][f'conn{i}']['client_sent']] for p, i in conn_of.items()}
    teams = {p: specs[i]['team'] for p, i in conn_of.items()}
    exp = {p: [f'{p.formal_name} {teams[p]} seated', f'Teams : N/S : "{teams[Player.N]}" E/W : "{teams[Player.E]}"'] for p in Player}
    cursor = {p: 0 for p in Player}

    def next_sent(p, pred):
        lst = sent[p]
        while cursor[p] < len(lst):
            m = lst[cursor[p]]
            cursor[p] += 1
            if pred(m):
                return m
        raise AssertionError(f'{p}: no further matching message sent')
    vul_txt = {1: 'Neither', 2: 'N/S', 3: 'E/W', 4: 'Both'}
    logs = []

    def one_board(bi, b):
        for p in Player:
            exp[p].append('Start of board')
            exp[p].append(f'Board number {bi + 1}. Dealer {b.dealer.formal_name}. {vul_txt[b.vul.value]} vulnerable.')
            exp[p].append(f"{p.formal_name}'s cards : " + Server.hand_to_str(b.hands[p]))
        # auction: follow the rules with the calls the seats sent
        hist = []
        turn = b.dealer
        while True:
            L = r_auction.laws([h.value for h in hist], b.dealer.value)
            if L['ended']:
                break
            m = next_sent(turn, lambda s: ' bids ' in s.lower() or s.lower().endswith(('passes', 'doubles', 'redoubles')) or 'alert' in s.lower())
            stripped = Server.remove_alert_word(m) if 'alert' in m.lower() else m
            from bridge_env.network_bridge.socket_interface import MessageInterface
            bid = MessageInterface.parse_bid(stripped, turn.formal_name)
            hist.append(bid)
            for p in Player:
                if p is not turn:
                    exp[p].append(stripped)
            turn = turn.left
        L = r_auction.laws([h.value for h in hist], b.dealer.value)
        rec = dict(board_id=b.board_id, auction=[str(h) for h in hist], passed_out=L['maxbid'] == 0)
        if L['maxbid'] != 0:
            declarer = Player(L['declarer'])
            dummy = declarer.partner
            contract = Contract(Bid(L['maxbid']), x=L['doubled'] or L['redoubled'], xx=L['redoubled'], vul=b.vul, declarer=declarer)
            ref = r_play.Ref(contract, {p.value: set(b.hands[p]) for p in Player})
            tricks = []
            for trick in range(1, 14):
                leader = Player(ref.leader)
                if leader is dummy:
                    exp[declarer].append('Dummy to lead')
                else:
                    exp[leader].append(f'{leader.formal_name} to lead')
                cards4 = []
                for pos in range(4):
                    seat = Player(ref.turn)
                    sender = declarer if seat is dummy else seat
                    m = next_sent(sender, lambda s: ' plays ' in s.lower())
                    card = MessageInterface.parse_card(m, seat)
                    assert ref.play(card, seat.value), f'{seat} played {card} which the rules refuse'
                    cards4.append(card)
                    for p in Player:
                        if p is not sender:
                            exp[p].append(m)
                    if trick == 1 and pos == 0:
                        for p in Player:
                            if p is not dummy:
                                exp[p].append("Dummy's cards : " + Server.hand_to_str(b.hands[dummy]))
                tricks.append((leader, cards4))
            rec.update(contract=str(contract), declarer=str(declarer), tricks=ref.taken[1 if declarer.value % 2 else 2],
                       play=[(str(l), [str(c) for c in cs]) for l, cs in tricks], contract_obj=contract)
        logs.append(rec)
    for bi, b in enumerate(boards):
        try:
            one_board(bi, b)
        except AssertionError:
            if not partial:
                raise
            return exp, logs, conn_of        # what the seats were entitled to as far as their own messages go
    for p in Player:
        exp[p].append('End of session')
    return exp, logs, conn_of


def check_session(name, seed=0, result=None):
    """returns list of (property tag, message) discrepancies between a recorded session and the oracle"""
    import json
    from bridge_env import Pair, Player
    from bridge_env.score import calc_score
    from harness import sessions
    boards, mk = sessions.session(name, seed)
    specs = mk()
    r = result or sessions.record(name, seed)
    bad = []
    if not r.get('completed'):
        # the session stopped early.  What was sent BEFORE it stopped is still compared with the entitlement: a message that
        # differs is a finding of its own (it may well be why a client gave up); a mere shortfall is C09's subject.
        try:
            exp, _, conn_of = expected_transcripts(boards, specs, r, partial=True)
            for p, i in conn_of.items():
                got = [m.rstrip('\r\n') for m in r['transcripts'][f'conn{i}']['server_sent']]
                for k, (a, b_) in enumerate(zip(got, exp[p])):
                    if a != b_ and not a.upper().startswith('ERROR') and a not in ('illegal bid', 'error detected'):
                        bad.append(('C10', f'{p}: message {k} received {a!r} but entitled to {b_!r} (the session stopped later)'))
                        break
        except Exception:
            pass
        return bad + [('C09', f'session {name} did not complete')], r
    try:
        exp, logs, conn_of = expected_transcripts(boards, specs, r)
    except AssertionError as e:
        return [('C10C08', f'oracle could not follow the session: {e}')], r
    for p, i in conn_of.items():
        got = [m.rstrip('\r\n') for m in r['transcripts'][f'conn{i}']['server_sent']]
        if got != exp[p]:
            j = next((k for k, (a, b) in enumerate(zip(got, exp[p])) if a != b), min(len(got), len(exp[p])))
            bad.append(('C10', f'{p}: message {j} received {got[j:j + 2]} but entitled to {exp[p][j:j + 2]} ({len(got)} vs {len(exp[p])} messages)'))
    try:
        doc = json.loads(r['log_text'])['logs']
    except Exception as e:
        return bad + [('C08', f'log unparseable: {e!r}')], r
    if len(doc) != len(boards):
        bad.append(('C08', f'{len(doc)} records for {len(boards)} boards'))
    from bridge_env.data_handler.json_handler.writer import convert_deal
    for b, rec, want in zip(boards, doc, logs):
        where = f'board {b.board_id}'
        if rec['board_id'] != b.board_id or rec['dealer'] != str(b.dealer) or rec['vulnerability'] != str(b.vul) or rec['deal'] != convert_deal(b.hands):
            bad.append(('C08', f'{where}: id/dealer/vulnerability/original deal not as configured'))
        if rec['bid_history'] != want['auction']:
            bad.append(('C08', f'{where}: logged auction {rec["bid_history"]} but the seats sent {want["auction"]}'))
        if want['passed_out']:
            if rec['contract'] != 'Passed_out' or rec['declarer'] is not None or rec['play_history'] is not None or rec['taken_trick'] is not None \
                    or rec['scores'] != {'NS': 0, 'EW': 0}:
                bad.append(('C08', f'{where}: passed-out board logged as {rec["contract"]}, play {rec["play_history"]}, tricks {rec["taken_trick"]}, scores {rec["scores"]}'))
        else:
            if rec['contract'] != want['contract'] or rec['declarer'] != want['declarer']:
                bad.append(('C08', f'{where}: contract {rec["contract"]} by {rec["declarer"]}, the rules give {want["contract"]} by {want["declarer"]}'))
            play = [(t['leader'], t['cards']) for t in rec['play_history']]
            if play != want['play']:
                bad.append(('C08', f'{where}: logged play differs from the cards the seats sent'))
            if rec['taken_trick'] != want['tricks']:
                bad.append(('C08', f'{where}: tricks {rec["taken_trick"]}, the rules give {want["tricks"]}'))
            s = calc_score(want['contract_obj'], want['tricks'])
            side = 'NS' if want['contract_obj'].declarer.value % 2 else 'EW'
            other = 'EW' if side == 'NS' else 'NS'
            if rec['scores'] != {side: s, other: -s} and rec['scores'] != {other: -s, side: s}:
                bad.append(('C08', f'{where}: scores {rec["scores"]}, the rules give {side} {s}'))
    return bad, r


def check_replicas(name, seed=0, result=None):
    """C11 (network clients): every bundled client's local auction and single-seat observer of every board must agree with
    the table manager's log on contract, declarer, trick history (leaders and cards), trick counts, and be finished."""
    import json
    from bridge_env import Pair
    from harness import sessions
    boards, mk = sessions.session(name, seed)
    specs = mk()
    r = result or sessions.record(name, seed)
    bad = []
    if not r.get('completed'):
        # Four bundled clients against the table manager: a client that stops with an error of its own (not a connection
        # that the other end closed) has rejected something the table manager accepted, or failed to follow the board
        own = {k: v for k, v in (r.get('clients') or {}).items()
               if isinstance(v, str) and v.startswith('exception: ') and not any(
                   t in v for t in ('ConnectionError', 'ConnectionResetError', 'BrokenPipeError', 'ConnectionAbortedError', 'OSError', 'timeout'))}
        if own and not r.get('server_exc'):
            return [f'bundled client stopped with its own error while the table manager went on: {own}'], r
        return ['session did not complete'], r
    if any(v != 'End of session' for k, v in r['clients'].items()):
        bad.append(f'a bundled client did not complete the session: {r["clients"]}')
    doc = json.loads(r['log_text'])['logs']
    per_client = {}
    for key, kind, obj in r['replicas']:
        per_client.setdefault(key, {'auction': [], 'play': []})[kind].append(obj)
    played = [rec for rec in doc if rec['contract'] != 'Passed_out']
    for key, d in sorted(per_client.items()):
        if len(d['auction']) != len(doc):
            bad.append(f'{key}: followed {len(d["auction"])} auctions, the session had {len(doc)} boards')
            continue
        for rec, bp in zip(doc, d['auction']):
            c = bp.contract()
            if c is None:
                bad.append(f'{key} board {rec["board_id"]}: client\'s auction has not ended')
            elif str(c) != rec['contract'] or (None if c.declarer is None else str(c.declarer)) != rec['declarer'] or str(c.vul) != rec['vulnerability'] \
                    or [str(b) for b in bp.bid_history] != rec['bid_history']:
                bad.append(f'{key} board {rec["board_id"]}: client holds {c.str_info()} / {[str(b) for b in bp.bid_history]}, the log says {rec["contract"]} by {rec["declarer"]}')
        if len(d['play']) != len(played):
            bad.append(f'{key}: followed {len(d["play"])} plays, the session had {len(played)} played boards')
            continue
        for rec, env in zip(played, d['play']):
            hist = [(str(h.leader), [str(x) for x in h.cards]) for h in env.playing_history.history]
            want = [(t['leader'], t['cards']) for t in rec['play_history']]
            side = Pair.NS if rec['declarer'] in ('N', 'S') else Pair.EW
            if hist != want:
                bad.append(f'{key} board {rec["board_id"]}: client\'s trick history differs from the table manager\'s')
            if env.taken_tricks[side] != rec['taken_trick'] or sum(env.taken_tricks.values()) != 13 or not env.has_done():
                bad.append(f'{key} board {rec["board_id"]}: client counts {dict(env.taken_tricks)}, the log says {rec["taken_trick"]} for declarer')
            if str(env.contract) != rec['contract'] or str(env.declarer) != rec['declarer']:
                bad.append(f'{key} board {rec["board_id"]}: client plays {env.contract} by {env.declarer}')
    return bad, r
