"""One-iteration (loop-cut) harnesses of the table manager's main thread, shared by C10 and C08, and the protocol
transcript oracle for recorded sessions.

Server.bidding_phase: ONE iteration of `while not bidding_env.has_done()` from an arbitrary live auction state
    (harness/auction.py invariant), the call message built by the real Client.create_bid_message (symbolic call, case bits,
    alert suffix) waiting in the queue of the seat on turn.
Server.playing_phase: ONE iteration of the inner `for i in range(4)` from an arbitrary play state (harness/play.py
    invariant) with trick_num / i tied to it (loop invariant: trick_num == engine trick number, i == cards on the table -
    preserved because each iteration plays exactly one card, C04), the card message built like the client's.
"""
import z3

from engine import cards as cardmod
from engine import hx, loopcut, sstr, symx
from engine.symx import Opaque, SBool, SEnum, SInt, SObj, SStr, Sym, zbool, zenum, zint
from harness import auction, play, proto

NAMES = {1: 'North', 2: 'East', 3: 'South', 4: 'West'}


def fake_server(eng):
    from bridge_env import Player
    from bridge_env.network_bridge.server import Server
    proto.install(eng, {})
    qs_out = {p: proto.queue() for p in Player}
    qs_in = {p: proto.queue() for p in Player}
    srv = SObj(Server, dict(sent_message_queues=qs_out, received_message_queues=qs_in, players_event={}))
    return srv, qs_out, qs_in


def text_is(a, b):
    e = sstr.eq(a, b) if isinstance(a, (str, SStr)) and isinstance(b, (str, SStr)) else False
    return e if not isinstance(e, bool) else z3.BoolVal(e)


def flip_case(eng, s, tag):
    out = []
    for i, c in enumerate(sstr.chars_of(s)):
        if isinstance(c, int) and (65 <= c <= 90 or 97 <= c <= 122):
            out.append(z3.If(z3.Bool(f'{tag}_flip{i}'), c ^ 32, c))
        else:
            out.append(c)
    return sstr.mk(out)


# --------------------------------------------------------------------------
def case_bidding_iteration(props, alert, seat):
    from bridge_env import Bid, BiddingPhase, BiddingPhaseState, Player
    from bridge_env.network_bridge.client import Client
    from bridge_env.network_bridge.server import Server

    def path(eng):
        srv, qo, qi = fake_server(eng)
        env, st = auction.fresh_state(eng)
        tp = st['tp']
        eng.assume(z3.And(auction.domain(st)))
        eng.assume(st['a'] == seat)             # splits the work; the case list covers the four seats
        eng.assume(z3.And(list(auction.inv(st, tp).values())))
        call = z3.Int('call')
        eng.assume(z3.And(1 <= call, call <= 38))
        pre = auction.snapshot(st)
        S = dict(a=pre['a'], lb=pre['lb'], lbid=pre['lbid'], x=pre['x'], xx=pre['xx'], tp=tp, n=pre['n'], dc=pre['dc'])
        legal = auction.legal(S, call)
        name = NAMES[seat]
        msg = eng.call_function(Client.create_bid_message, [SEnum(Bid, call), name], {})
        msg = flip_case(eng, sstr.concat(eng, [msg, alert]), 'm')
        qi[Player(seat)].attrs['items'].append(msg)
        loop = loopcut.find_while(Server.bidding_phase, 'not bidding_env.has_done()')

        def refine(eng_, neg, m):
            d = auction.synthesize(eng_, neg, pre, tp, call)
            if d is not None:
                d.update(kind='bidding_iteration', alert=alert, props=sorted(props),
                         message=''.join(chr(hx.mval(eng_.solver.model(), c) if not isinstance(c, int) else c) for c in sstr.chars_of(msg)))
            return d
        raised = None
        try:
            loopcut.run_body(eng, Server.bidding_phase, loop, dict(self=srv, bidding_env=env))
        except symx.RaiseEx as e:
            raised = e.exc
        post = auction.read_state(env)
        chk = []

        def add(tags, label, cond):
            for p in sorted(tags & props):
                chk.append((f'{p}: {label}', cond))
        out = {p: qo[Player(p)].attrs['items'] for p in range(1, 5)}
        add({'C10'}, 'every seat is first told whose turn it is', all(len(out[p]) >= 1 and out[p][0] == name for p in range(1, 5)))
        if raised is not None:
            add({'C10', 'C08'}, 'the auction step raises only for an illegal call', z3.Not(legal))
            add({'C10'}, 'illegal call: the offender is told "illegal bid", the others "error detected", nothing else is relayed',
                all(out[p][1:] == ([Server.Message.ILLEGAL_BID] if p == seat else [Server.Message.ERROR]) for p in range(1, 5)))
            return dict(outcome='illegal call', checks=chk, refine=refine)
        add({'C10', 'C08'}, 'a call that is relayed is legal', legal)
        stripped = eng.call_function(Server.remove_alert_word, [msg], {}) if alert.strip() else msg
        ok_struct = all(len(out[p]) == (1 if p == seat else 2) for p in range(1, 5))
        add({'C10'}, 'the call text goes exactly once to each seat other than the caller and not to the caller', ok_struct)
        if ok_struct:
            add({'C10'}, 'the relayed text is the text the seat sent (alert suffix stripped)',
                z3.And([text_is(out[p][1], stripped) for p in range(1, 5) if p != seat]))
        add({'C08'}, 'the call applied to the auction and recorded in its history is the call the seat sent',
            auction.appended(pre['H'], pre['n'], post['H'], post['n'], call))
        add({'C08'}, 'the auction state follows the rules for that call (last bid, flags, declarer table)',
            z3.And(post['lbid'] == auction.ref_step(S, call)['lbid'], post['lb'] == auction.ref_step(S, call)['lb'],
                   post['x'] == auction.ref_step(S, call)['x'], post['xx'] == auction.ref_step(S, call)['xx']))
        return dict(outcome='call relayed', checks=chk, refine=refine)
    return hx.explore_case(path, dict(max_paths=20000))


# --------------------------------------------------------------------------
def case_playing_iteration(props, t, notation, turn):
    from bridge_env import Card, Player, PlayingPhaseWithHands
    from bridge_env.network_bridge.client import Client
    from bridge_env.network_bridge.server import Server

    def path(eng):
        eng.summarize.add(PlayingPhaseWithHands.calc_highest)
        eng.summarize.add(Card.rank_int_to_str.__func__)
        eng.summarize.add(Card.rank_str_to_int.__func__)
        srv, qo, qi = fake_server(eng)
        env, st = play.fresh_state(eng, t)
        eng.assume(play.set_axioms(st))
        eng.assume(z3.And(list(play.invariant(st).values())))
        eng.assume(st['A'] == turn)
        cr, cs_ = z3.Int('card_rank'), z3.Int('card_suit')
        eng.assume(z3.And(2 <= cr, cr <= 14, 1 <= cs_, cs_ <= 4))
        pre = play.snapshot(st)
        dummy = (st['dcl'] + 1) % 4 + 1
        is_dummy_turn = eng.decide(dummy == turn)
        dcl_v = eng.concretize_int(SInt(st['dcl']), 1, 4)
        sender = dcl_v if is_dummy_turn else turn
        card = cardmod.sym_card(cr, cs_)
        txt = eng.call_function(Client.card_str if notation == 'rank-suit' else Card.__str__, [card], {})
        msg = flip_case(eng, sstr.concat(eng, [NAMES[turn], ' plays ', txt]), 'm')
        qi[Player(sender)].attrs['items'].append(msg)
        hands_obj = env.attrs['hands']
        token = {id(st['hands'][p]): p for p in range(1, 5)}

        def hand_to_str(e, args, kw):
            h = args[-1]
            return sstr.concat(e, ['<hand of seat ', str(token.get(id(h), '?')), '>'])
        eng.stubs[Server.hand_to_str] = hand_to_str
        loop = loopcut.find_for(Server.playing_phase, 'i', 'range(4)')
        ci = play.cidx(cr, cs_)
        held = z3.Or([z3.And(ci == i, pre['hands'][turn].bits[i]) for i in range(52)])

        def refine(eng_, neg, m):
            return play.synth_play(eng_, neg, pre, (cr, cs_), z3.IntVal(turn),
                                   lambda mm: {'kind': 'playing_iteration', 'props': sorted(props), 'notation': notation,
                                               'message': ''.join(chr(hx.mval(mm, c) if not isinstance(c, int) else c) for c in sstr.chars_of(msg))})
        raised = None
        try:
            loopcut.run_body(eng, Server.playing_phase, loop,
                             dict(self=srv, playing_env=env, trick_num=SInt(st['T']), i=t, cards=hands_obj, contract=st['contract']))
        except symx.RaiseEx as e:
            raised = e.exc
        chk = []

        def add(tags, label, cond):
            for p in sorted(tags & props):
                chk.append((f'{p}: {label}', cond))
        out = {p: qo[Player(p)].attrs['items'] for p in range(1, 5)}
        add({'C10', 'C08'}, 'the card message is taken from the seat on turn, or from declarer when dummy is on turn',
            len(qi[Player(sender)].attrs['items']) == 0)
        if raised is not None:
            add({'C10', 'C08'}, 'the play step raises only for a card the seat on turn does not hold', z3.Not(held))
            add({'C10'}, 'nothing is relayed for a refused card', all(len(out[p]) == 0 for p in range(1, 5)))
            return dict(outcome='refused card', checks=chk, refine=refine)
        add({'C10', 'C08'}, 'a relayed card is held by the seat on turn', held)
        post = play.read_state(env, st)
        post_ci = None
        if t < 3 and post['t'] == t + 1:
            r2, s2 = post['table'][-1]
            add({'C08'}, 'the card put on the table is the card the seat sent', z3.And(r2 == cr, s2 == cs_))
        elif t == 3 and len(post['hist_app']) == 1:
            th = post['hist_app'][0]
            c4 = list(th.attrs['cards'])[-1]
            add({'C08'}, 'the card recorded in the trick history is the card the seat sent',
                z3.And(zint(c4.attrs['rank']) == cr, zenum(c4.attrs['suit']) == cs_))
        opening = z3.And(pre['T'] == 1, z3.BoolVal(t == 0))
        is_open = eng.decide(opening)
        dmy = eng.concretize_int(SInt(dummy), 1, 4)
        want = {}
        for p in range(1, 5):
            w = [] if p == sender else [msg]
            if is_open and p != dmy:
                w.append(f"Dummy's cards : <hand of seat {dmy}>")
            want[p] = w
        same_len = all(len(out[p]) == len(want[p]) for p in range(1, 5))
        add({'C10'}, 'the card goes exactly once to every seat except the connection that sent it; dummy\'s cards go to the three other seats exactly '
                     'after the opening lead (and never otherwise, never to dummy, never another hand)', same_len)
        if same_len:
            add({'C10'}, 'texts relayed are the card message as sent and dummy\'s own hand',
                z3.And([text_is(a, b) for p in range(1, 5) for a, b in zip(out[p], want[p])] or [True]))
        return dict(outcome='card relayed' + (' with dummy disclosure' if is_open else ''), checks=chk, refine=refine)
    return hx.explore_case(path, dict(max_paths=50000))


# --------------------------------------------------------------------------
def case_deal(props):
    from bridge_env import Hands, Player, Vul
    from bridge_env.network_bridge.server import Server

    def path(eng):
        srv, qo, qi = fake_server(eng)
        num, dealer, vul = z3.Int('board_number'), z3.Int('dealer'), z3.Int('vul')
        eng.assume(z3.And(1 <= num, num <= 9999, 1 <= dealer, dealer <= 4, 1 <= vul, vul <= 4))
        eng.stubs[Server._sync_event] = lambda e, a, k: None
        hs = {p: Opaque('hand', p) for p in range(1, 5)}
        eng.stubs[Server.hand_to_str] = lambda e, a, k: f'<hand of seat {a[-1].payload}>'
        hands = SObj(Hands, {n: hs[p] for p, n in enumerate(('north', 'east', 'south', 'west'), 1)})
        cex = lambda m: {'kind': 'deal', 'number': hx.mval(m, num), 'dealer': hx.mval(m, dealer), 'vul': hx.mval(m, vul), 'props': sorted(props)}
        try:
            eng.call_function(Server.deal, [srv, SInt(num), SEnum(Player, dealer), SEnum(Vul, vul), hands, None], {})
        except symx.RaiseEx as e:
            return dict(outcome='raise', cex=cex, checks=[(f'{p}: Server.deal does not raise ({e.exc!r})', False) for p in sorted(props)])
        out = {p: qo[Player(p)].attrs['items'] for p in range(1, 5)}
        ok = all(len(out[p]) == 2 for p in range(1, 5))
        chk = [('each seat is queued exactly a board header and one hand message', ok)]
        if ok:
            chk.append(('each seat is sent its own cards and nobody else\'s',
                        all(out[p][1] == f"{NAMES[p]}'s cards : <hand of seat {p}>" for p in range(1, 5))))
            dn = z3.If(dealer == 1, 0, z3.If(dealer == 2, 1, z3.If(dealer == 3, 2, 3)))
            hdr_ok = []
            for p in range(1, 5):
                alts = []
                for d in range(1, 5):
                    for v, vt in ((1, 'Neither'), (2, 'N/S'), (3, 'E/W'), (4, 'Both')):
                        digits = sstr.chars_of(out[p][0])
                        # compare with the configured values: prefix, number, dealer, vulnerability
                        pre_ = 'Board number '
                        rest = f'. Dealer {NAMES[d]}. {vt} vulnerable.'
                        L = len(digits) - len(pre_) - len(rest)
                        if L < 1:
                            continue
                        e1 = sstr.eq(sstr.mk(digits[:len(pre_)]), pre_)
                        e2 = sstr.eq(sstr.mk(digits[len(pre_) + L:]), rest)
                        if e1 is False or e2 is False:
                            continue
                        val = z3.IntVal(0)
                        for c in digits[len(pre_):len(pre_) + L]:
                            val = val * 10 + (sstr.zc(c) - 48)
                        alts.append(z3.And(dealer == d, vul == v, val == num,
                                           e1 if not isinstance(e1, bool) else z3.BoolVal(e1), e2 if not isinstance(e2, bool) else z3.BoolVal(e2)))
                hdr_ok.append(z3.Or(alts) if alts else z3.BoolVal(False))
            chk.append(('every board starts with the configured board number, dealer and vulnerability', z3.And(hdr_ok)))
        return dict(outcome='deal messages', cex=cex, checks=[(f'{p}: {l}', c) for l, c in chk for p in sorted(props)])
    return hx.explore_case(path, dict(max_paths=5000))




# --------------------------------------------------------------------------
# seat threads: one iteration of PlayerThread._playing_phase / _bidding_phase
# --------------------------------------------------------------------------
def _thread(eng, seat_z, inbox, from_main):
    from bridge_env import Player
    from bridge_env.network_bridge.server import PlayerThread
    wires = {}
    proto.install(eng, wires)
    w = proto.Wire(inbox)
    to_main = {p: proto.queue() for p in Player}
    fm = {p: proto.queue(from_main) for p in Player}       # the thread only reads its own seat's queue
    th = SObj(PlayerThread, dict(player=SEnum(Player, seat_z), connection=proto.conn(w), _sent_message_queues=to_main,
                                 _received_message_queues=fm, name='t'))
    wires[id(th)] = w
    return th, w, to_main, fm


def case_thread_playing_iteration(props, i):
    """own seat, declarer, seat on turn, trick number symbolic; the client's messages are the ones the bundled client sends"""
    from bridge_env import Player
    from bridge_env.network_bridge.server import PlayerThread

    def path(eng):
        p, d, a, T = z3.Int('own_seat'), z3.Int('declarer'), z3.Int('on_turn'), z3.Int('trick')
        eng.assume(z3.And(1 <= p, p <= 4, 1 <= d, d <= 4, 1 <= a, a <= 4, 1 <= T, T <= 13))
        pv, dv, av = (eng.concretize_int(SInt(x), 1, 4) for x in (p, d, a))
        dummy = (dv + 1) % 4 + 1
        if i == 0 and T is not None:
            # trick 1 is led by declarer's left-hand opponent (C04); no such tie for later tricks
            eng.assume(z3.Implies(T == 1, z3.BoolVal(av == dv % 4 + 1)))
        first_trick = eng.decide(T == 1)
        tn = 1 if first_trick else eng.concretize_int(SInt(T), 2, 13)
        mine = av == pv and pv != dummy
        for_dummy = pv == dv and av == dummy
        card_msg = f'{NAMES[av]} plays 7H'
        relayed = f'{NAMES[av]} plays 7h'
        who = NAMES[av] if av != dummy else 'dummy'
        inbox, from_main = [], []
        if mine or for_dummy:
            inbox.append(card_msg)
        else:
            inbox.append(f"{NAMES[pv]} ready for {who}'s card to trick {tn}")
            from_main.append(relayed)
        disclose = tn == 1 and i == 0 and pv != dummy
        if disclose:
            inbox.append(f'{NAMES[pv]} ready for dummy')
            from_main.append("Dummy's cards : <dummy hand>")
        if i == 0:
            from_main.insert(0, NAMES[av])       # the main thread announces the leader when a trick starts
        th, w, to_main, fm = _thread(eng, z3.IntVal(pv), inbox, from_main)
        # the (trick, position) loop nest, nested or flattened; position 0 starts where the trick starts
        prefix, body, _form = loopcut.find_nest(PlayerThread._playing_phase, 'trick_num', 'i')
        cex = lambda m: {'kind': 'thread_playing', 'props': sorted(props), 'seat': pv, 'declarer': dv, 'on_turn': av, 'trick': tn, 'i': i}
        locs = dict(self=th, declarer=Player(dv), dummy=Player(dummy), trick_num=tn, i=i)
        if i != 0:
            locs['active_player'] = Player(av)
        try:
            st, frame = loopcut.run_stmts(eng, PlayerThread._playing_phase, (prefix if i == 0 else []) + body, locs)
        except symx.RaiseEx as e:
            return dict(outcome='raise', cex=cex, checks=[(f'{q}: the seat thread handles a conforming client ({e.exc!r})', False) for q in sorted(props)])
        want = []
        if mine and i == 0:
            want.append(f'{NAMES[pv]} to lead')
        elif for_dummy and i == 0:
            want.append('Dummy to lead')
        if not (mine or for_dummy):
            want.append(relayed)
        if disclose:
            want.append("Dummy's cards : <dummy hand>")
        sent = [x if isinstance(x, str) else (x.concrete() if isinstance(x, SStr) and x.is_concrete() else repr(x)) for x in w.outbox]
        fwd = {q: to_main[Player(q)].attrs['items'] for q in range(1, 5)}
        chk = [('the connection is sent exactly: the lead prompt only if this seat must lead now ("Dummy to lead" to declarer when dummy leads), the relayed card '
                'unless this connection played it, dummy\'s cards only after the opening lead and not to dummy', sent == want),
               ('the card received from the client is forwarded to the main thread through this seat\'s queue, and nothing else',
                fwd == {q: ([card_msg] if (q == pv and (mine or for_dummy)) else []) for q in range(1, 5)}),
               ('every message offered by the client and the main thread was consumed in order', not w.inbox and not fm[Player(pv)].attrs['items']),
               ('the turn advances to the left-hand seat', frame.locs.get('active_player') is Player(av % 4 + 1))]
        return dict(outcome='seat thread iteration', cex=cex, checks=[(f'{q}: {l}', c) for l, c in chk for q in sorted(props)])
    return hx.explore_case(path, dict(max_paths=20000))


def case_thread_bidding_iteration(props):
    from bridge_env import Player
    from bridge_env.network_bridge.server import PlayerThread, Server

    def path(eng):
        p, a = z3.Int('own_seat'), z3.Int('on_turn')
        eng.assume(z3.And(1 <= p, p <= 4, 1 <= a, a <= 4))
        pv, av = eng.concretize_int(SInt(p), 1, 4), eng.concretize_int(SInt(a), 1, 4)
        mine = pv == av
        call_msg = f'{NAMES[av]} bids 1NT Alert.'
        relayed = f'{NAMES[av]} bids 1NT'
        inbox = [call_msg] if mine else [f"{NAMES[pv]} ready for {NAMES[av]}'s bid"]
        from_main = [NAMES[av]] + ([] if mine else [relayed]) + [Server.Message.NULL]
        th, w, to_main, fm = _thread(eng, z3.IntVal(pv), inbox, from_main)
        cex = lambda m: {'kind': 'thread_bidding', 'props': sorted(props), 'seat': pv, 'on_turn': av}
        try:
            r = eng.call_function(PlayerThread._bidding_phase, [th], {})
        except symx.RaiseEx as e:
            return dict(outcome='raise', cex=cex, checks=[(f'{q}: the seat thread handles a conforming client ({e.exc!r})', False) for q in sorted(props)])
        sent = list(w.outbox)
        fwd = {q: to_main[Player(q)].attrs['items'] for q in range(1, 5)}
        chk = [('the connection is sent the relayed call exactly when another seat called, nothing when it called itself', sent == ([] if mine else [relayed])),
               ('the seat\'s own call is forwarded to the main thread as received', fwd == {q: ([call_msg] if (q == pv and mine) else []) for q in range(1, 5)}),
               ('the auction loop ends on the end marker', r is True and not fm[Player(pv)].attrs['items'])]
        return dict(outcome='seat thread auction iteration', cex=cex, checks=[(f'{q}: {l}', c) for l, c in chk for q in sorted(props)])
    return hx.explore_case(path, dict(max_paths=5000))
