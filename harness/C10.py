"""C10 — each seat is told exactly what the protocol entitles it to, and nothing else.

Main thread, SYMEX (harness/table.py): Server.deal (symbolic board number / dealer / vulnerability, hands as injective
tokens); ONE iteration of the auction loop from an arbitrary live auction state with the seat's call message built by the
real client (symbolic call, case bits, alert suffix); ONE iteration of the play loop from an arbitrary play state (any
trick, 0..3 cards on the table, any contract) with the card message built like the client's (both notations, case bits).
Seat threads and the composition: every byte stream of recorded sessions (real Server.run, PlayerThreads and bundled
Clients over in-memory sockets) is compared, message by message, with a protocol transcript computed independently from
the boards, the seats' own decisions and the rules (harness/transcripts.py); by C09's schedule analysis and the trace
determinism check those streams are the same under every schedule.
"""
import json

from engine import common
from harness import sessions, table

PROPS = {'C10'}
SESSIONS = {'quick': ['S2', 'S4', 'S7', 'S8'], 'thorough': ['S1', 'S2', 'S3', 'S4', 'S5', 'S6', 'S7', 'S8']}


def _transcript_case(name, props):
    from harness import transcripts
    common.setup_path()
    res = common.CaseResult(name)
    bad, r = transcripts.check_session(name, common.SEED)
    mine = [m for t, m in bad if any(p in t for p in props)]
    other = [m for t, m in bad if 'C09' in t]
    n_msgs = sum(len(v['server_sent']) for v in r.get('transcripts', {}).values())
    res.stats = dict(paths=1, queries=0, steps=n_msgs)
    res.outcomes = {'session transcript compared': 1}
    res.samples = [{'session': name, 'messages_compared': n_msgs, 'discrepancies': len(mine)}]
    res.detail = f'{n_msgs} messages; ' + '; '.join(mine[:2])
    if other and not mine:
        res.status = 'inconclusive'
        res.detail = 'session did not complete (see C09): ' + '; '.join(other)
    elif mine:
        res.cex.append({'kind': 'transcript', 'session': name, 'seed': common.SEED, 'props': sorted(props), 'discrepancies': mine[:5]})
        res.status = 'cex'
    return res


def replay_transcript(c):
    from harness import transcripts
    bad, r = transcripts.check_session(c['session'], c.get('seed', 0))
    mine = [m for t, m in bad if any(p in t for p in c.get('props', ['C08', 'C10']))]
    return bool(mine), f'session {c["session"]}: ' + '; '.join(mine[:3])


def iteration_cases(props, tier):
    cs = [(table.case_deal, 'Server.deal: header and own cards per seat', dict(props=props))]
    alerts = ['', ' Alert.'] if tier != 'thorough' else ['', ' Alert.', '  alert. ', ' ALERT.']
    for a in alerts:
        for seat in range(1, 5):
            cs.append((table.case_bidding_iteration, f'auction loop iteration, seat {seat} to call, alert suffix {a!r}', dict(props=props, alert=a, seat=seat)))
    for t in range(4):
        for turn in range(1, 5):
            nots = ('rank-suit', 'suit-rank') if (tier == 'thorough' or (t + turn) % 2 == 0) else ('rank-suit',)
            for n in nots:
                cs.append((table.case_playing_iteration, f'play loop iteration, {t} cards on the table, seat {turn} on turn, notation {n}',
                           dict(props=props, t=t, notation=n, turn=turn)))
    return cs


def cases(tier):
    cs = iteration_cases(PROPS, tier)
    for i in range(4):
        cs.append((table.case_thread_playing_iteration, f'seat thread: play loop iteration, position {i} (own seat, declarer, seat on turn, trick symbolic)', dict(props=PROPS, i=i)))
    cs.append((table.case_thread_bidding_iteration, 'seat thread: auction loop iteration (own seat, seat on turn symbolic)', dict(props=PROPS)))
    from harness import C08
    cs.append((C08.case_assembly, 'Server.run over two boards configured with the same Hands object: each board deals the configured cards',
               dict(n=2, shared=True, props=PROPS)))
    for n in SESSIONS['thorough' if tier == 'thorough' else 'quick']:
        cs.append((_transcript_case, f'byte streams of session {n} against the protocol transcript', dict(name=n, props=PROPS)))
    return cs


META = dict(
    level='model_checking',
    bounds=lambda tier: {'main thread': 'Server.deal for board numbers 1..9999; one auction-loop iteration from any live auction state (history of any length), all 38 calls, case bits, alert suffixes; '
                                        'one play-loop iteration from any play state (trick 1..13, 0..3 cards on the table, any contract, any hands), any card offered, both notations, case bits',
                         'seat threads': 'one iteration of PlayerThread._playing_phase (own seat x declarer x seat on turn x trick 1..13 x position 0..3) and of _bidding_phase (own seat x seat on turn), client messages as the bundled client sends them',
                         'composition': 'complete byte streams of the recorded sessions ' + ', '.join(SESSIONS['thorough' if tier == 'thorough' else 'quick']) + ' (4 connections each)',
                         'outside': 'seat-thread code paths not exercised by the recorded sessions'},
    stubs=['queues = recording lists; Server.hand_to_str = injective token of the hand it is given (its text is C19\'s subject); Server._sync_event no-op',
           'recorded sessions: in-memory sockets, time.sleep no-op'],
    assumptions=['loop invariant of the play loop: trick_num == engine trick number and i == cards on the table (each iteration plays exactly one card: C04)',
                 'streams of a session do not depend on the schedule (C09: deadlock-freedom + trace determinism, checked there)'],
    rule='feasible paths of one loop iteration taken from the source; plus message-by-message comparison of recorded streams',
    explanation='loop-cut symbolic execution of the relay code and an independent transcript oracle for recorded sessions',
    required_outcomes=['session assembled', 'seat thread iteration', 'seat thread auction iteration', 'deal messages', 'call relayed', 'card relayed', 'card relayed with dummy disclosure', 'session transcript compared'],
)


def validate(tier):
    """translator validation: the interpreter in concrete mode against CPython on the functions this check encodes"""
    from engine import validate as v
    return v.run(['messages', 'plays', 'auctions'], tier)
