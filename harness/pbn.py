"""Shared by C18 (PBN export read back) and C17 (PBN import files): capturing file, deal-line codec contract,
free-text fields over the properties' alphabet, running the real PbnParser on a list of lines."""
import z3

from engine import sstr, symx
from engine.symx import Opaque, SEnum, SInt, SObj, SStr, Sym, zenum, zint

ALPHABET = sorted(set(ord(c) for c in "abcdefghijklmnopqrstuvwxyzABCDEFGHIJKLMNOPQRSTUVWXYZ0123456789 .,-_/()'+#:"))
PBN_DEAL_ALPHA = sorted(ord(c) for c in '23456789TJQKA.')


def free_text(eng, name, n):
    """n symbolic characters from: letters, digits, space and . , - _ / ( ) ' + # :"""
    ch = [z3.Int(f'{name}_{i}') for i in range(n)]
    for c in ch:
        eng.assume(z3.Or([c == a for a in ALPHABET]))
        eng.declare_domain(c, ALPHABET)
    return SStr(ch) if ch else ''


class DealCodec:
    """contract of Hands._convert_hand_to_pbn / _hand_parser (discharged by C14): an injective map between hands and
    16-character strings over the PBN deal alphabet ('-' for the empty hand)."""

    def __init__(self, eng, tag, present=(True, True, True, True)):
        from bridge_env import Hands
        self.tokens, self.hands = {}, {}
        seats = ('north', 'east', 'south', 'west')
        for p, s in enumerate(seats, 1):
            if present[p - 1]:
                ch = [z3.Int(f'{tag}_tok{p}_{j}') for j in range(16)]
                for c in ch:
                    eng.assume(z3.Or([c == a for a in PBN_DEAL_ALPHA]))
                    eng.declare_domain(c, PBN_DEAL_ALPHA)
                self.tokens[p] = SStr(ch)
                self.hands[p] = Opaque('hand', (tag, p))
            else:
                self.tokens[p] = '-'
                self.hands[p] = Opaque('hand', (tag, 0))
        ps = [p for p in range(1, 5) if present[p - 1]]
        for i in range(len(ps)):
            for j in range(i + 1, len(ps)):
                eng.assume(z3.Not(sstr.eq(self.tokens[ps[i]], self.tokens[ps[j]])))
        self.present = present
        self.deal = SObj(Hands, {s: self.hands[p] for p, s in enumerate(seats, 1)})


def install_codecs(eng, codecs):
    """codecs: list of DealCodec; tokens of different deals are assumed different as well (injectivity)"""
    from bridge_env import Hands
    table = []
    for c in codecs:
        for p in range(1, 5):
            if c.present[p - 1]:
                table.append((c.tokens[p], c.hands[p]))
    for i in range(len(table)):
        for j in range(i + 1, len(table)):
            e = sstr.eq(table[i][0], table[j][0])
            if not isinstance(e, bool):
                eng.assume(z3.Not(e))

    def enc(e, args, kw):
        h = args[-1]
        for tok, hand in table:
            if hand is h:
                return tok
        if isinstance(h, Opaque) and h.kind == 'hand':
            return '-'
        raise symx.Unsupported('deal codec: unknown hand object')

    def dec(e, args, kw):
        t = args[-1]
        if isinstance(t, str) and t == '-':
            return Opaque('hand', ('empty', 0))
        for tok, hand in table:
            r = sstr.eq(t, tok)
            if r is True or (r is not False and e.decide(r)):
                return hand
        return Opaque('hand', ('unknown', -1))
    eng.stubs[Hands._convert_hand_to_pbn] = enc
    eng.stubs[Hands._hand_parser] = dec


def same_hands(back, codec):
    """python bool: the Hands object read back holds, seat by seat, the hand objects of `codec`"""
    seats = ('north', 'east', 'south', 'west')
    for p, s in enumerate(seats, 1):
        h = back.attrs[s] if isinstance(back, SObj) else getattr(back, s, None)
        if codec.present[p - 1]:
            if h is not codec.hands[p]:
                return False
        elif not (isinstance(h, Opaque) and h.payload[1] == 0):
            return False
    return True


def split_lines(chunks):
    """the text written so far as a list of lines (line ends kept), like iterating over the file"""
    chars = []
    for c in chunks:
        chars += sstr.chars_of(c)
    lines, cur = [], []
    for c in chars:
        cur.append(c)
        if isinstance(c, int) and c == 10:
            lines.append(sstr.mk(cur))
            cur = []
    if cur:
        lines.append(sstr.mk(cur))
    return lines


def text_of(m, s):
    from engine import hx
    return ''.join(chr(hx.mval(m, c) if not isinstance(c, int) else c) for c in sstr.chars_of(s))
