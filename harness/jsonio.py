"""json / file stubs for the record-level checks (C12, C13, C17, C08) and a validator for the published schemas.

json.dumps(d)  -> an opaque token carrying the JSON-normalised d (tuples become lists, keys must be strings, ...)
file.write(x)  -> chunk appended to a capturing file
json.load(fp)  -> the chunks are assembled; every token is replaced by 0 and the SKELETON is parsed by the real json
                  module (so broken framing is seen by the real parser); the zeros are then replaced, in document
                  order, by the carried data.
Assumed: json.loads(json.dumps(d)) == d for str-keyed dict / list / str / int / None (the standard library's contract).
"""
import json

import z3

from engine import sstr, symx
from engine.symx import GuardedList, Opaque, SBool, SInt, SObj, SStr, Sym


class FakeFile:
    _verif_stub_ = True      # a member the stub lacks is a harness gap (exit 2), not an AttributeError of the program


def new_file():
    return SObj(FakeFile, {'chunks': [], 'closed': False})


def normalise(eng, v):
    """what json.dumps followed by json.loads makes of v (raises TypeError like json.dumps)"""
    if v is None or isinstance(v, (str, SStr, bool, SBool)):
        return v
    if isinstance(v, (int, SInt)):
        return v
    if isinstance(v, Opaque) and v.kind.startswith('str:'):
        return v
    if isinstance(v, (list, tuple)):
        return [normalise(eng, x) for x in v]
    if isinstance(v, GuardedList):
        return GuardedList([(g, normalise(eng, x)) for g, x in v.items])
    if isinstance(v, dict):
        out = {}
        for k, x in v.items():
            if isinstance(k, str):
                kk = k
            elif isinstance(k, SStr):
                if not k.is_concrete():
                    raise symx.Unsupported('symbolic JSON object key')
                kk = k.concrete()
            elif isinstance(k, bool):
                kk = 'true' if k else 'false'
            elif isinstance(k, int):
                kk = str(k)
            elif k is None:
                kk = 'null'
            else:
                raise symx.RaiseEx(TypeError(f'keys must be str, int, float, bool or None, not {type(k).__name__}'))
            out[kk] = normalise(eng, x)
        return out
    raise symx.RaiseEx(TypeError(f'Object of type {type(v).__name__} is not JSON serializable'))


def install(eng):
    def dumps(e, args, kw):
        return Opaque('json', normalise(e, args[0]))

    def write(e, o):
        def w(x):
            if o.attrs['closed']:
                raise symx.RaiseEx(ValueError('I/O operation on closed file.'))
            o.attrs['chunks'].append(x)
        return symx.SymCallable(w)

    def load(e, args, kw):
        return load_chunks(e, args[0].attrs['chunks'])
    eng.stubs[json.dumps] = dumps
    eng.stubs[json.load] = load
    eng.attr_stubs[('FakeFile', 'write')] = write
    eng.attr_stubs[('FakeFile', 'close')] = lambda e, o: symx.SymCallable(lambda: o.attrs.__setitem__('closed', True))
    def flush(e, o):
        def f():
            if o.attrs['closed']:
                raise symx.RaiseEx(ValueError('I/O operation on closed file.'))
        return symx.SymCallable(f)

    def writelines(e, o):
        wr = write(e, o)
        return symx.SymCallable(lambda lines: [wr(x) for x in lines] and None)
    eng.attr_stubs[('FakeFile', 'flush')] = flush
    eng.attr_stubs[('FakeFile', 'writelines')] = writelines
    eng.attr_stubs[('FakeFile', 'writable')] = lambda e, o: symx.SymCallable(lambda: True)
    eng.attr_stubs[('FakeFile', '__enter__')] = lambda e, o: symx.SymCallable(lambda: o)
    eng.attr_stubs[('FakeFile', '__exit__')] = lambda e, o: symx.SymCallable(lambda *a: o.attrs.__setitem__('closed', True))


def skeleton(chunks):
    toks = []
    parts = []
    for c in chunks:
        if isinstance(c, Opaque) and c.kind == 'json':
            toks.append(c.payload)
            parts.append('0')
        elif isinstance(c, str):
            parts.append(c)
        elif isinstance(c, SStr) and c.is_concrete():
            parts.append(c.concrete())
        else:
            raise symx.Unsupported('symbolic text written outside json.dumps')
    return ''.join(parts), toks


def load_chunks(eng, chunks):
    text, toks = skeleton(chunks)
    try:
        doc = json.loads(text)
    except json.JSONDecodeError as e:
        raise symx.RaiseEx(e)
    it = iter(toks)
    used = [0]

    def fill(x):
        if isinstance(x, dict):
            return {k: fill(v) for k, v in x.items()}
        if isinstance(x, list):
            return [fill(v) for v in x]
        if x == 0 and not isinstance(x, bool):
            used[0] += 1
            return next(it)
        return x
    out = fill(doc)
    if used[0] != len(toks):
        raise symx.Unsupported('skeleton zeros do not match the number of records')
    return out


# --------------------------------------------------------------------------
# the subset of JSON Schema used by the two published schemas
# --------------------------------------------------------------------------
def _type_ok(v, t):
    if t == 'string':
        return isinstance(v, (str, SStr)) or (isinstance(v, Opaque) and v.kind.startswith('str:'))
    if t == 'integer':
        return isinstance(v, (int, SInt)) and not isinstance(v, bool)
    if t == 'null':
        return v is None
    if t == 'array':
        return isinstance(v, (list, GuardedList))
    if t == 'object':
        return isinstance(v, dict)
    if t == 'boolean':
        return isinstance(v, (bool, SBool))
    if t == 'number':
        return isinstance(v, (int, float, SInt)) and not isinstance(v, bool)
    raise symx.Unsupported(f'schema type {t}')


KNOWN = {'$schema', 'definitions', 'type', 'properties', 'required', 'items', '$ref', 'description', 'title', 'examples', '$id'}


def validate(v, schema, root, loader, path='$'):
    """returns list of violations (strings)"""
    unknown = set(schema) - KNOWN
    if unknown:
        raise symx.Unsupported(f'schema keyword(s) {sorted(unknown)} not modelled')
    if '$ref' in schema:
        ref = schema['$ref']
        fname, _, frag = ref.partition('#')
        doc = loader(fname) if fname else root
        node = doc
        for part in frag.strip('/').split('/'):
            if part:
                node = node[part]
        return validate(v, node, doc, loader, path)
    bad = []
    if 'type' in schema:
        ts = schema['type'] if isinstance(schema['type'], list) else [schema['type']]
        if not any(_type_ok(v, t) for t in ts):
            bad.append(f'{path}: {type(v).__name__} is not of type {schema["type"]}')
            return bad
    if isinstance(v, dict):
        for k in schema.get('required', []):
            if k not in v:
                bad.append(f'{path}: required property {k!r} missing')
        for k, sub in schema.get('properties', {}).items():
            if k in v:
                bad += validate(v[k], sub, root, loader, f'{path}.{k}')
    if isinstance(v, (list, GuardedList)) and 'items' in schema:
        items = v.items if isinstance(v, GuardedList) else [(None, x) for x in v]
        for i, (_, x) in enumerate(items):
            bad += validate(x, schema['items'], root, loader, f'{path}[{i}]')
    return bad


def schema_loader(repo):
    import os
    base = os.path.join(repo, 'bridge_env', 'data_handler', 'json_handler')
    cache = {}

    def load(name):
        if name not in cache:
            cache[name] = json.load(open(os.path.join(base, name)))
        return cache[name]
    return load
