"""replay side of the admission sessions (runs under the repository's interpreter, no z3)"""


def replay(c):
    import json
    from harness import sessions
    name, seed = c['session'], c.get('seed', 0)
    if c['what'] == 'schedule':
        r = sessions.record(name, seed, mode='replay', schedule=[tuple(x) for x in c['schedule']], idle_s=3.0)
        return (not r.get('completed')), f'admission session {name}: schedule of {len(c["schedule"])} operations forced; completed={r.get("completed")}; blocked at {r.get("blocked_at")}'
    r = sessions.record(name, seed)
    if not r.get('completed'):
        return True, f'admission session {name} does not complete: clients {r.get("clients")} blocked at {r.get("blocked_at")}'
    boards, mk = sessions.session(name, seed)
    specs = mk()
    bad = []
    seated = {}
    for i, spec in enumerate(specs):
        res = r['clients'].get(f'cl{i}')
        if spec.get('raw'):
            sent = r['transcripts'][f'conn{i}']['server_sent']
            if len(sent) != 1 or not sent[0].startswith('ERROR'):
                bad.append(f'invalid request {spec["request"]} answered with {sent}')
            if not r['transcripts'][f'conn{i}']['server_closed']:
                bad.append(f'invalid request {spec["request"]}: connection left open')
        else:
            seated[spec['seat'].name] = spec['team']
            if res != 'End of session':
                bad.append(f'bundled client {spec["seat"]} ended with {res!r}')
            sent = r['transcripts'][f'conn{i}']['server_sent']
            teams = [x for x in sent if x.startswith('Teams')]
            want = None
            if teams != [f'Teams : N/S : "Team NS" E/W : "Team EW"\r\n']:
                bad.append(f'{spec["seat"]} was told {teams}')
    try:
        logs = json.loads(r['log_text'])['logs']
        if len(logs) != len(boards) or logs[0]['players'] != {k: seated[k] for k in 'NESW'}:
            bad.append('first board not logged with the seated teams')
    except Exception as e:
        bad.append(f'log unparseable {e!r}')
    return bool(bad), f'admission session {name}: ' + '; '.join(bad[:4])
