"""C15 — card, call, contract, seat and vulnerability notations are exact inverses.

Encoded from source: Card.__int__/int_to_card/__str__/str_to_card/rank_int_to_str/rank_str_to_int/__lt__/__le__/
__gt__/__ge__/__post_init__, Bid.idx/level/suit/__str__/int_to_bid/level_suit_to_bid/str_to_bid,
Player.formal_name/convert_formal_name/__str__, Vul.__str__/pbn_format/str_to_vul, Suit.__str__,
Contract.__str__/str_to_contract/is_passed_out/__post_init__.

Every value is symbolic (card = symbolic rank 2..14 x symbolic suit 1..4; call 1..38; seat; vulnerability;
contract = bid x (x, xx) x vul x declarer); each converter pair is executed on it from the real source and the
identity is one query per feasible path.  Injectivity is a two-copy query (x != y and f(x) == f(y) must be unsat).
"""
import z3

from engine import hx, symx
from engine.symx import SBool, SEnum, SInt, SObj, SStr, Sym, zbool, zenum, zint
from engine import sstr, cards as cardmod


def _call(eng, fn, *args, **kw):
    try:
        return 'ret', eng.call_function(fn, list(args), kw)
    except symx.RaiseEx as e:
        return 'raise', e.exc


def _render(v):
    """JSON-able rendering of a converter's result on a path (strings are concrete on these paths)"""
    if isinstance(v, SStr):
        return v.concrete() if v.is_concrete() else repr(v)
    return str(v)


def sym_card(tag=''):
    r, s = z3.Int('rank' + tag), z3.Int('suit' + tag)
    return cardmod.sym_card(r, s), z3.And(2 <= r, r <= 14, 1 <= s, s <= 4), r, s


def same_card(c, r, s):
    """z3: card value c (real Card or symbolic) is Card(r, s)"""
    if isinstance(c, SObj):
        return z3.And(zint(c.attrs['rank']) == r, zenum(c.attrs['suit']) == s)
    return z3.And(r == c.rank, s == c.suit.value)


def case_card_int():
    from bridge_env import Card

    def path(eng):
        c, dom, r, s = sym_card()
        eng.assume(dom)
        cex = lambda m: {'kind': 'card_int', 'rank': hx.mval(m, r), 'suit': hx.mval(m, s)}
        k, i = _call(eng, Card.__int__, c)
        if k == 'raise':
            return dict(outcome='raise', checks=[('int(card) does not raise', False)], cex=cex)
        k, back = _call(eng, Card.int_to_card.__func__, Card, i)
        if k == 'raise':
            return dict(outcome='raise', checks=[('int_to_card(int(card)) does not raise', False)], cex=cex)
        want = (s - 1) * 13 + r - 2
        return dict(outcome='card->int->card', cex=cex,
                    checks=[('index is (suit-1)*13+rank-2, in 0..51', z3.And(zint(i) == want, zint(i) >= 0, zint(i) <= 51)),
                            ('int_to_card(int(c)) == c', same_card(back, r, s))])
    return hx.explore_case(path)


def case_int_card():
    from bridge_env import Card

    def path(eng):
        x = z3.Int('x')
        eng.assume(z3.And(x >= -3, x <= 55))
        cex = lambda m: {'kind': 'int_card', 'x': hx.mval(m, x)}
        k, c = _call(eng, Card.int_to_card.__func__, Card, SInt(x))
        inr = z3.And(x >= 0, x <= 51)
        if k == 'raise':
            return dict(outcome='int->card refused', cex=cex,
                        checks=[('only indices outside 0..51 are refused', z3.Not(inr)),
                                ('refusal is a ValueError', isinstance(c, ValueError))])
        k, i = _call(eng, Card.__int__, c)
        if k == 'raise':
            return dict(outcome='raise', checks=[('int(int_to_card(x)) does not raise', False)], cex=cex)
        return dict(outcome='int->card->int', cex=cex,
                    checks=[('accepted only in range', inr), ('int(int_to_card(x)) == x', zint(i) == x)])
    return hx.explore_case(path)


def case_card_str():
    from bridge_env import Card

    def path(eng):
        c, dom, r, s = sym_card()
        eng.assume(dom)
        cex = lambda m: {'kind': 'card_str', 'rank': hx.mval(m, r), 'suit': hx.mval(m, s)}
        k, t = _call(eng, Card.__str__, c)
        if k == 'raise':
            return dict(outcome='raise', checks=[('str(card) does not raise', False)], cex=cex)
        k, back = _call(eng, Card.str_to_card.__func__, Card, t)
        if k == 'raise':
            return dict(outcome='raise', checks=[('str_to_card(str(card)) does not raise', False)], cex=cex)
        k, rs = _call(eng, Card.rank_int_to_str.__func__, Card, SInt(r))
        chk = [('str_to_card(str(c)) == c', same_card(back, r, s)),
               ('text is two characters', len(sstr.chars_of(t)) == 2)]
        if k == 'ret':
            k2, ri = _call(eng, Card.rank_str_to_int.__func__, Card, rs)
            chk.append(('rank_str_to_int(rank_int_to_str(r)) == r', (zint(ri) == r) if k2 == 'ret' else False))
            e = sstr.eq(sstr.mk(sstr.chars_of(t)[1:]), rs)
            chk.append(('rank letter of str(card) is rank_int_to_str(rank)', e))
        else:
            chk.append(('rank_int_to_str does not raise for 2..14', False))
        return dict(outcome='card->str->card', checks=chk, cex=cex, sample=_render(t))
    return hx.explore_case(path)


def case_card_str_injective():
    from bridge_env import Card

    def path(eng):
        c1, d1, r1, s1 = sym_card('1')
        c2, d2, r2, s2 = sym_card('2')
        eng.assume(z3.And(d1, d2, z3.Or(r1 != r2, s1 != s2)))
        cex = lambda m: {'kind': 'card_inj', 'a': [hx.mval(m, r1), hx.mval(m, s1)], 'b': [hx.mval(m, r2), hx.mval(m, s2)]}
        k1, t1 = _call(eng, Card.__str__, c1)
        k2, t2 = _call(eng, Card.__str__, c2)
        k3, i1 = _call(eng, Card.__int__, c1)
        k4, i2 = _call(eng, Card.__int__, c2)
        if 'raise' in (k1, k2, k3, k4):
            return dict(outcome='raise', checks=[('no exception', False)], cex=cex)
        e = sstr.eq(t1, t2)
        return dict(outcome='two cards', cex=cex,
                    checks=[('distinct cards have distinct text', z3.Not(e) if not isinstance(e, bool) else (not e)),
                            ('distinct cards have distinct index', zint(i1) != zint(i2))])
    return hx.explore_case(path)


def case_card_order():
    from bridge_env import Card

    def path(eng):
        c1, d1, r1, s1 = sym_card('1')
        c2, d2, r2, s2 = sym_card('2')
        eng.assume(z3.And(d1, d2))
        cex = lambda m: {'kind': 'card_order', 'a': [hx.mval(m, r1), hx.mval(m, s1)], 'b': [hx.mval(m, r2), hx.mval(m, s2)]}
        i1 = (s1 - 1) * 13 + r1 - 2
        i2 = (s2 - 1) * 13 + r2 - 2
        chk = []
        for nm, want in (('__lt__', i1 < i2), ('__le__', i1 <= i2), ('__gt__', i1 > i2), ('__ge__', i1 >= i2)):
            k, v = _call(eng, getattr(Card, nm), c1, c2)
            if k == 'raise':
                chk.append((f'{nm} does not raise', False))
            else:
                chk.append((f'{nm} agrees with the card index', zbool(v) == want if isinstance(v, Sym) else (z3.BoolVal(bool(v)) == want)))
        return dict(outcome='two cards ordered', checks=chk, cex=cex)
    return hx.explore_case(path)


def case_bid():
    from bridge_env import Bid, Suit

    def path(eng):
        b = z3.Int('call')
        eng.assume(z3.And(1 <= b, b <= 38))
        bid = SEnum(Bid, b)
        cex = lambda m: {'kind': 'bid', 'call': hx.mval(m, b)}
        chk = []
        k, ix = _call(eng, Bid.idx.fget, bid)
        if k == 'raise':
            return dict(outcome='raise', checks=[('idx does not raise', False)], cex=cex)
        chk.append(('idx is value-1', zint(ix) == b - 1))
        k, back = _call(eng, Bid.int_to_bid.__func__, Bid, ix)
        chk.append(('int_to_bid(idx) is the call', (zenum(back) == b) if k == 'ret' else False))
        k, t = _call(eng, Bid.__str__, bid)
        if k == 'raise':
            chk.append(('str(call) does not raise', False))
        else:
            k, back = _call(eng, Bid.str_to_bid.__func__, Bid, t)
            chk.append(('str_to_bid(str(call)) is the call', (zenum(back) == b) if k == 'ret' else False))
        k, lv = _call(eng, Bid.level.fget, bid)
        k2, su = _call(eng, Bid.suit.fget, bid)
        if 'raise' in (k, k2):
            chk.append(('level/suit do not raise', False))
        else:
            isbid = b <= 35
            lvz = zint(lv) if lv is not None else None
            suz = zenum(su) if su is not None else None
            if lv is None or su is None:
                chk.append(('level and suit are None exactly for Pass/X/XX', z3.And(z3.Not(isbid), lv is None and su is None)))
            else:
                chk.append(('level and suit are None exactly for Pass/X/XX', isbid))
                chk.append(('level = (value-1)//5+1, denomination = (value-1)%5+1',
                            z3.And(lvz == (b - 1) / 5 + 1, suz == (b - 1) % 5 + 1)))
                k, back = _call(eng, Bid.level_suit_to_bid.__func__, Bid, lv, su)
                chk.append(('level_suit_to_bid(level, suit) is the call', (zenum(back) == b) if k == 'ret' else False))
        return dict(outcome='call', checks=chk, cex=cex, sample=_render(t) if k != 'raise' else None)
    return hx.explore_case(path)


def case_bid_injective():
    from bridge_env import Bid

    def path(eng):
        a, b = z3.Ints('call1 call2')
        eng.assume(z3.And(1 <= a, a <= 38, 1 <= b, b <= 38, a != b))
        cex = lambda m: {'kind': 'bid_inj', 'a': hx.mval(m, a), 'b': hx.mval(m, b)}
        k1, t1 = _call(eng, Bid.__str__, SEnum(Bid, a))
        k2, t2 = _call(eng, Bid.__str__, SEnum(Bid, b))
        k3, i1 = _call(eng, Bid.idx.fget, SEnum(Bid, a))
        k4, i2 = _call(eng, Bid.idx.fget, SEnum(Bid, b))
        if 'raise' in (k1, k2, k3, k4):
            return dict(outcome='raise', checks=[('no exception', False)], cex=cex)
        e = sstr.eq(t1, t2)
        return dict(outcome='two calls', cex=cex,
                    checks=[('distinct calls have distinct text', z3.Not(e) if not isinstance(e, bool) else (not e)),
                            ('distinct calls have distinct index', zint(i1) != zint(i2))])
    return hx.explore_case(path, dict(max_paths=5000))


def case_level_suit():
    """level_suit_to_bid on symbolic (level 1..7, denomination): yields the bid with that level and denomination"""
    from bridge_env import Bid, Suit

    def path(eng):
        lv, su = z3.Ints('level denom')
        eng.assume(z3.And(1 <= lv, lv <= 7, 1 <= su, su <= 5))
        cex = lambda m: {'kind': 'level_suit', 'level': hx.mval(m, lv), 'denom': hx.mval(m, su)}
        k, b = _call(eng, Bid.level_suit_to_bid.__func__, Bid, SInt(lv), SEnum(Suit, su))
        if k == 'raise':
            return dict(outcome='raise', checks=[('no exception for level 1..7', False)], cex=cex)
        k1, l2 = _call(eng, Bid.level.fget, b)
        k2, s2 = _call(eng, Bid.suit.fget, b)
        ok = (k1 == 'ret' and k2 == 'ret' and l2 is not None and s2 is not None)
        return dict(outcome='level+denomination', cex=cex,
                    checks=[('result has that level and denomination',
                             z3.And(zint(l2) == lv, zenum(s2) == su) if ok else False)])
    return hx.explore_case(path)


def case_player():
    from bridge_env import Player

    def path(eng):
        p = z3.Int('seat')
        eng.assume(z3.And(1 <= p, p <= 4))
        cex = lambda m: {'kind': 'player', 'seat': hx.mval(m, p)}
        k, t = _call(eng, Player.formal_name.fget, SEnum(Player, p))
        if k == 'raise':
            return dict(outcome='raise', checks=[('formal_name does not raise', False)], cex=cex)
        k, back = _call(eng, Player.convert_formal_name.__func__, Player, t)
        k2, s = _call(eng, Player.__str__, SEnum(Player, p))
        chk = [('convert_formal_name(formal_name) is the seat', (zenum(back) == p) if k == 'ret' else False)]
        if k2 == 'ret':
            st = _render(s)
            chk.append(('Player[str(seat)] is the seat', z3.BoolVal(st in Player.__members__) if isinstance(st, str) else False))
            if isinstance(st, str) and st in Player.__members__:
                chk.append(('Player[str(seat)] value', p == Player[st].value))
            ft = _render(t)
            chk.append(('formal name starts with the seat letter', ft[:1] == st))
        else:
            chk.append(('str(seat) does not raise', False))
        return dict(outcome='seat', checks=chk, cex=cex, sample=_render(t))
    return hx.explore_case(path)


def case_player_injective():
    from bridge_env import Player

    def path(eng):
        a, b = z3.Ints('seat1 seat2')
        eng.assume(z3.And(1 <= a, a <= 4, 1 <= b, b <= 4, a != b))
        cex = lambda m: {'kind': 'player_inj', 'a': hx.mval(m, a), 'b': hx.mval(m, b)}
        k1, t1 = _call(eng, Player.formal_name.fget, SEnum(Player, a))
        k2, t2 = _call(eng, Player.formal_name.fget, SEnum(Player, b))
        k3, u1 = _call(eng, Player.__str__, SEnum(Player, a))
        k4, u2 = _call(eng, Player.__str__, SEnum(Player, b))
        if 'raise' in (k1, k2, k3, k4):
            return dict(outcome='raise', checks=[('no exception', False)], cex=cex)
        return dict(outcome='two seats', cex=cex,
                    checks=[('distinct seats have distinct formal names', _render(t1) != _render(t2)),
                            ('distinct seats have distinct letters', _render(u1) != _render(u2))])
    return hx.explore_case(path)


def case_vul():
    from bridge_env import Vul

    def path(eng):
        v = z3.Int('vul')
        eng.assume(z3.And(1 <= v, v <= 4))
        cex = lambda m: {'kind': 'vul', 'vul': hx.mval(m, v)}
        chk = []
        smp = []
        for nm, fn in (('str', Vul.__str__), ('pbn_format', Vul.pbn_format)):
            k, t = _call(eng, fn, SEnum(Vul, v))
            if k == 'raise':
                chk.append((f'{nm} does not raise', False))
                continue
            smp.append(_render(t))
            k, back = _call(eng, Vul.str_to_vul.__func__, Vul, t)
            chk.append((f'str_to_vul({nm}(v)) is v', (zenum(back) == v) if k == 'ret' else False))
        return dict(outcome='vulnerability', checks=chk, cex=cex, sample=smp)
    return hx.explore_case(path)


def case_vul_spellings():
    """the accepted alternative spellings and injectivity of the two notations"""
    from bridge_env import Vul

    def path(eng):
        a, b = z3.Ints('vul1 vul2')
        eng.assume(z3.And(1 <= a, a <= 4, 1 <= b, b <= 4, a != b))
        cex = lambda m: {'kind': 'vul_inj', 'a': hx.mval(m, a), 'b': hx.mval(m, b)}
        chk = []
        for nm, fn in (('str', Vul.__str__), ('pbn_format', Vul.pbn_format)):
            k1, t1 = _call(eng, fn, SEnum(Vul, a))
            k2, t2 = _call(eng, fn, SEnum(Vul, b))
            chk.append((f'distinct vulnerabilities have distinct {nm}',
                        k1 == 'ret' and k2 == 'ret' and _render(t1) != _render(t2)))
        for text, want in (('Love', 1), ('-', 1), ('None', 1), ('All', 4), ('Both', 4), ('NS', 2), ('EW', 3)):
            k, r = _call(eng, Vul.str_to_vul.__func__, Vul, SStr([ord(ch) for ch in text]))
            chk.append((f'str_to_vul({text!r})', k == 'ret' and r is not None and
                        (zenum(r) == want if isinstance(r, Sym) else r.value == want)))
        return dict(outcome='two vulnerabilities', checks=chk, cex=cex)
    return hx.explore_case(path)


def case_contract(passed_out=False):
    from bridge_env import Bid, Contract, Player, Vul

    def path(eng):
        b, v, d = z3.Ints('bid vul decl')
        x, xx = z3.Bools('x xx')
        if passed_out:
            eng.assume(z3.And(1 <= v, v <= 4, d == 0, z3.Not(x), z3.Not(xx)))
            which = z3.Bool('final_bid_is_None')
            fb = None if eng.decide(which) else Bid.Pass
            c = SObj(Contract, dict(final_bid=fb, x=False, xx=False, vul=SEnum(Vul, v), declarer=None))
        else:
            eng.assume(z3.And(1 <= b, b <= 35, 1 <= v, v <= 4, 1 <= d, d <= 4))
            fb = SEnum(Bid, b)
            c = SObj(Contract, dict(final_bid=fb, x=SBool(x), xx=SBool(xx), vul=SEnum(Vul, v), declarer=SEnum(Player, d)))

        def cex(m):
            return {'kind': 'contract', 'bid': (None if fb is None else 36 if passed_out else hx.mval(m, b)),
                    'x': hx.mval(m, x), 'xx': hx.mval(m, xx), 'vul': hx.mval(m, v), 'declarer': hx.mval(m, d)}
        k, t = _call(eng, Contract.__str__, c)
        if k == 'raise':
            return dict(outcome='raise', checks=[('str(contract) does not raise', False)], cex=cex)
        decl = None if passed_out else SEnum(Player, d)
        k, back = _call(eng, Contract.str_to_contract.__func__, Contract, t, SEnum(Vul, v), decl)
        if k == 'raise':
            return dict(outcome='raise', checks=[('str_to_contract(str(c)) does not raise', False)], cex=cex)
        A = back.attrs if isinstance(back, SObj) else None
        g = (lambda n: A[n]) if A is not None else (lambda n: getattr(back, n))
        chk = []
        if passed_out:
            k, po = _call(eng, Contract.is_passed_out, back)
            chk.append(('passed-out text parses to a passed-out contract', k == 'ret' and (po is True or (isinstance(po, Sym) and zbool(po)))))
            chk.append(('no declarer', g('declarer') is None))
        else:
            fb2 = g('final_bid')
            chk.append(('same bid (level and denomination)', zenum(fb2) == b))
            chk.append(('same declarer', zenum(g('declarer')) == d))
            # doubling status: redoubled if xx, else doubled if x, else undoubled
            st = lambda X, XX: z3.If(XX, 2, z3.If(X, 1, 0))
            chk.append(('same doubling status', st(zbool(g('x')), zbool(g('xx'))) == st(x, xx)))
        chk.append(('same vulnerability', zenum(g('vul')) == v))
        return dict(outcome='passed-out contract' if passed_out else 'contract', checks=chk, cex=cex, sample=_render(t))
    return hx.explore_case(path, dict(max_paths=20000))


def case_contract_injective():
    """two contracts with different bid or doubling status never print the same text"""
    from bridge_env import Bid, Contract, Player, Vul

    def path(eng):
        b1, b2 = z3.Ints('bid1 bid2')
        s1, s2 = z3.Ints('status1 status2')
        eng.assume(z3.And(1 <= b1, b1 <= 35, 1 <= b2, b2 <= 35, 0 <= s1, s1 <= 2, 0 <= s2, s2 <= 2,
                          z3.Or(b1 != b2, s1 != s2)))
        cs = []
        for b, s in ((b1, s1), (b2, s2)):
            cs.append(SObj(Contract, dict(final_bid=SEnum(Bid, b), x=SBool(s >= 1), xx=SBool(s == 2), vul=Vul.NONE,
                                          declarer=Player.N)))
        cex = lambda m: {'kind': 'contract_inj', 'a': [hx.mval(m, b1), hx.mval(m, s1)], 'b': [hx.mval(m, b2), hx.mval(m, s2)]}
        k1, t1 = _call(eng, Contract.__str__, cs[0])
        k2, t2 = _call(eng, Contract.__str__, cs[1])
        if 'raise' in (k1, k2):
            return dict(outcome='raise', checks=[('no exception', False)], cex=cex)
        return dict(outcome='two contracts', cex=cex,
                    checks=[('distinct contracts have distinct text', _render(t1) != _render(t2))])
    return hx.explore_case(path, dict(max_paths=50000))


def case_sequence(kind, first_status=None):
    """two conversions one after the other in the same process: the second result must not depend on the first (module- or
    class-level state such as a memo is part of the real code and is interpreted as such).  For contracts the first
    contract's bid is tied to the second's (|difference| <= 1), only to keep the number of paths down."""
    from bridge_env import Bid, Card, Contract, Player, Vul

    def path(eng):
        if kind == 'contract':
            b1, b2, s2, v, d = z3.Ints('bid1 bid2 status2 vul declarer')
            s1 = z3.IntVal(first_status)
            eng.assume(z3.And(1 <= b1, b1 <= 35, 1 <= b2, b2 <= 35, b1 - b2 <= 1, b2 - b1 <= 1, 0 <= s2, s2 <= 2, 1 <= v, v <= 4, 1 <= d, d <= 4))
            mk = lambda b, st: SObj(Contract, dict(final_bid=SEnum(Bid, b), x=SBool(st >= 1), xx=SBool(st == 2), vul=SEnum(Vul, v), declarer=SEnum(Player, d)))
            cex = lambda m: {'kind': 'contract_seq', 'first': [hx.mval(m, b1), first_status], 'second': [hx.mval(m, b2), hx.mval(m, s2)],
                             'vul': hx.mval(m, v), 'declarer': hx.mval(m, d)}
            for b, st in ((b1, s1), (b2, s2)):
                k, t = _call(eng, Contract.__str__, mk(b, st))
                if k == 'raise':
                    return dict(outcome='raise', checks=[('str(contract) does not raise', False)], cex=cex)
                k, back = _call(eng, Contract.str_to_contract.__func__, Contract, t, SEnum(Vul, v), SEnum(Player, d))
                if k == 'raise':
                    return dict(outcome='raise', checks=[('str_to_contract does not raise', False)], cex=cex)
            g = (lambda n: back.attrs[n]) if isinstance(back, SObj) else (lambda n: getattr(back, n))
            stt = lambda X, XX: z3.If(XX, 2, z3.If(X, 1, 0))
            return dict(outcome='second conversion', cex=cex,
                        checks=[('the second contract text parses to the second contract, whatever was parsed before',
                                 z3.And(zenum(g('final_bid')) == b2, stt(zbool(g('x')), zbool(g('xx'))) == s2, zenum(g('vul')) == v, zenum(g('declarer')) == d))])
        if kind == 'bid':
            b1, b2 = z3.Ints('call1 call2')
            eng.assume(z3.And(1 <= b1, b1 <= 38, 1 <= b2, b2 <= 38))
            cex = lambda m: {'kind': 'bid_seq', 'first': hx.mval(m, b1), 'second': hx.mval(m, b2)}
            for b in (b1, b2):
                k, t = _call(eng, Bid.__str__, SEnum(Bid, b))
                if k == 'raise':
                    return dict(outcome='raise', checks=[('str(call) does not raise', False)], cex=cex)
                k, back = _call(eng, Bid.str_to_bid.__func__, Bid, t)
                if k == 'raise':
                    return dict(outcome='raise', checks=[('str_to_bid does not raise', False)], cex=cex)
            return dict(outcome='second conversion', cex=cex, checks=[('the second call text parses to the second call', zenum(back) == b2)])
        c1, d1, r1, s1_ = sym_card('1')
        c2, d2, r2, s2_ = sym_card('2')
        eng.assume(z3.And(d1, d2))
        cex = lambda m: {'kind': 'card_seq', 'first': [hx.mval(m, r1), hx.mval(m, s1_)], 'second': [hx.mval(m, r2), hx.mval(m, s2_)]}
        for c in (c1, c2):
            k, t = _call(eng, Card.__str__, c)
            if k == 'raise':
                return dict(outcome='raise', checks=[('str(card) does not raise', False)], cex=cex)
            k, back = _call(eng, Card.str_to_card.__func__, Card, t)
            if k == 'raise':
                return dict(outcome='raise', checks=[('str_to_card does not raise', False)], cex=cex)
            k, i = _call(eng, Card.__int__, c)
            k2, back_i = _call(eng, Card.int_to_card.__func__, Card, i) if k == 'ret' else ('raise', None)
        chk = [('the second card text parses to the second card', same_card(back, r2, s2_))]
        if k2 == 'ret':
            chk.append(('the second card index converts back to the second card', same_card(back_i, r2, s2_)))
        return dict(outcome='second conversion', cex=cex, checks=chk)
    return hx.explore_case(path, dict(max_paths=50000))


def cases(tier):
    cs = [(case_card_int, 'card<->index', {}), (case_int_card, 'index<->card (with out-of-range)', {}),
          (case_card_str, 'card<->text', {}), (case_card_str_injective, 'card text/index injective', {}),
          (case_card_order, 'card order = index order', {}),
          (case_bid, 'call<->index/text/level+denomination', {}),
          (case_level_suit, 'level+denomination -> bid', {}),
          (case_player, 'seat<->formal name', {}), (case_player_injective, 'seat notations injective', {}),
          (case_vul, 'vulnerability<->text (both spellings)', {}),
          (case_vul_spellings, 'vulnerability spellings and injectivity', {}),
          (case_contract, 'contract<->text', dict(passed_out=False)),
          (case_contract, 'passed-out contract<->text', dict(passed_out=True))]
    cs.append((case_bid_injective, 'call text/index injective', {}))
    for st in (0, 1, 2):
        cs.append((case_sequence, f'two contract conversions in sequence (first contract status {st})', dict(kind='contract', first_status=st)))
    cs.append((case_sequence, 'two call conversions in sequence', dict(kind='bid')))
    cs.append((case_sequence, 'two card conversions in sequence', dict(kind='card')))
    if tier == 'thorough':
        cs.append((case_contract_injective, 'contract text injective', {}))
    return cs


META = dict(
    level='model_checking',
    bounds={'domain': 'complete finite domains, symbolic: 52 cards (rank 2..14 x suit), indices -3..55, 38 calls, 4 seats, '
                      '4 vulnerabilities (+ Love, -, All, Both), contracts 35 bids x (x,xx) flags x 4 vul x 4 declarers + passed out '
                      '(final bid None or Pass, declarer None); pairs of cards/calls/seats/vulnerabilities for injectivity and order'},
    stubs=[],
    assumptions=['enum members are identified by their integer value; Enum[name] and .name are taken from the real class',
                 "Contract.str_to_contract('Passed_out') is only called with declarer None (an assert in the source)",
                 'a Contract with x=False, xx=True counts as redoubled (status, not dataclass equality, is compared)'],
    rule='feasible paths of the converter pairs over symbolic values; distinct = different path conditions',
    explanation='symbolic execution of both directions of every notation on one symbolic value; identity and injectivity are z3 queries per path',
    required_outcomes=['second conversion', 'card->int->card', 'int->card->int', 'int->card refused', 'card->str->card', 'call', 'seat',
                       'vulnerability', 'contract', 'passed-out contract'],
)


def validate(tier):
    """translator validation: the interpreter in concrete mode against CPython on the functions this check encodes"""
    from engine import validate as v
    return v.run(['converters'], tier)
