"""Stubs that let ONE endpoint of the protocol (Client, PlayerThread, Server main) be executed symbolically on its own:
message-level socket (send_message / receive_message replaced by an outbox / scripted inbox), queues, events.
Framing itself (bytes, CR LF, end of stream) is the subject of C19's framing cases and is not re-done here."""
import z3

from engine import sstr, symx
from engine.symx import SObj, SStr, Sym


class NeedInput(Exception):
    """the endpoint wants to receive but the scripted inbox is empty"""


class Wire:
    """message-level connection of one endpoint"""

    def __init__(self, inbox=()):
        self.inbox = list(inbox)
        self.outbox = []
        self.events = []          # ('send', msg) / ('recv', msg) / ('close',) in program order
        self.closed = False

    def send(self, msg):
        self.outbox.append(msg)
        self.events.append(('send', msg))

    def recv(self):
        if not self.inbox:
            raise symx.RaiseEx(NeedInput())
        m = self.inbox.pop(0)
        self.events.append(('recv', m))
        return m


class FakeConn:
    pass


class FakeQueue:
    pass


class FakeEvent:
    pass


def install(eng, wires):
    """wires: {id(SObj endpoint) -> Wire}.  Replaces MessageInterface.send_message/receive_message for these endpoints."""
    from bridge_env.network_bridge.socket_interface import MessageInterface, SocketInterface

    def send_stub(e, args, kw):
        self_, msg = args[0], args[1]
        wires[id(self_)].send(msg)
        return None

    def recv_stub(e, args, kw):
        return wires[id(args[0])].recv()
    eng.stubs[MessageInterface.send_message] = send_stub
    eng.stubs[MessageInterface.receive_message] = recv_stub
    eng.stubs[SocketInterface.connect_socket] = lambda e, a, k: None
    eng.attr_stubs[('FakeConn', 'close')] = lambda e, o: symx.SymCallable(lambda: o.attrs['wire'].events.append(('close',)) or
                                                                            setattr(o.attrs['wire'], 'closed', True))
    eng.attr_stubs[('FakeQueue', 'put')] = lambda e, o: symx.SymCallable(lambda item: o.attrs['items'].append(item))
    eng.attr_stubs[('FakeQueue', 'get')] = lambda e, o: symx.SymCallable(lambda: _qget(o))
    eng.attr_stubs[('FakeEvent', 'set')] = lambda e, o: symx.SymCallable(lambda: o.attrs['log'].append('set'))
    eng.attr_stubs[('FakeEvent', 'clear')] = lambda e, o: symx.SymCallable(lambda: o.attrs['log'].append('clear'))
    eng.attr_stubs[('FakeEvent', 'wait')] = lambda e, o: symx.SymCallable(lambda: o.attrs['log'].append('wait'))


def _qget(o):
    if not o.attrs['items']:
        raise symx.RaiseEx(NeedInput())
    return o.attrs['items'].pop(0)


def conn(wire):
    return SObj(FakeConn, {'wire': wire})


def queue(items=()):
    return SObj(FakeQueue, {'items': list(items)})


def event():
    return SObj(FakeEvent, {'log': []})


def run_until_blocked(eng, fn, args):
    """returns ('ret', value) | ('raise', exc) | ('blocked', None)"""
    try:
        return 'ret', eng.call_function(fn, list(args), {})
    except symx.RaiseEx as e:
        if isinstance(e.exc, NeedInput):
            return 'blocked', None
        return 'raise', e.exc


def free_text(eng, name, n, extra_forbidden=()):
    """n symbolic characters: any code point except the double quote, CR and LF (a message is one line)"""
    ch = [z3.Int(f'{name}_{i}') for i in range(n)]
    for c in ch:
        eng.assume(z3.And(c >= 0, c <= 0x10FFFF, c != 34, c != 13, c != 10, *[c != x for x in extra_forbidden]))
    return SStr(ch) if ch else ''
