"""C19 — protocol messages mean the same to both ends and framing always terminates.

Builder o parser identities, each with the OTHER end's real function (all encoded from source):
  Client.create_bid_message -> Server.remove_alert_word -> MessageInterface.parse_bid      (38 calls x 4 seats, case bits, alert suffix)
  Client.card_str / str(card) -> MessageInterface.parse_card                               (52 x 4 x 2 notations, case bits)
  Server.deal (header + "X's cards") / Server.hand_to_str -> Client.parse_board / parse_cards / parse_hand
  Client._connect line -> PlayerThread.parse_connection_info ; PlayerThread._connect replies -> Client._connect / parse_team_names
Framing: MessageInterface.send_message / receive_message against a socket stub that delivers the sent bytes one recv
at a time and b'' at (and forever after) a symbolic end-of-stream position.
"""
import itertools
import random

import z3

from engine import cards as cardmod
from engine import common, hx, sstr, symx
from engine.symx import CardSet, SEnum, SInt, SObj, SStr, Sym, zbool, zenum, zint


def flip_case(eng, s, tag):
    """every ASCII letter of s gets a symbolic case bit"""
    out, bits = [], []
    for i, c in enumerate(sstr.chars_of(s)):
        if isinstance(c, int) and (65 <= c <= 90 or 97 <= c <= 122):
            b = z3.Bool(f'{tag}_flip{i}')
            bits.append(b)
            out.append(z3.If(b, c ^ 32, c))
        else:
            out.append(c)
    return sstr.mk(out), bits


def _call(eng, fn, *args, **kw):
    try:
        return 'ret', eng.call_function(fn, list(args), kw)
    except symx.RaiseEx as e:
        return 'raise', e.exc


def text_of(m, s):
    return ''.join(chr(hx.mval(m, c) if not isinstance(c, int) else c) for c in sstr.chars_of(s))


ALERTS = ['', ' Alert.', '  alert. ', ' ALERT.']


# --------------------------------------------------------------------------
def case_bid(alert):
    from bridge_env import Bid, Player
    from bridge_env.network_bridge.client import Client
    from bridge_env.network_bridge.server import Server
    from bridge_env.network_bridge.socket_interface import MessageInterface

    def path(eng):
        b, seat = z3.Int('call'), z3.Int('seat')
        eng.assume(z3.And(1 <= b, b <= 38, 1 <= seat, seat <= 4))
        k, name = _call(eng, Player.formal_name.fget, SEnum(Player, seat))
        state = {}

        def cex(m):
            return {'kind': 'bid', 'call': hx.mval(m, b), 'seat': hx.mval(m, seat), 'alert': alert,
                    'message': text_of(m, state['msg']) if 'msg' in state else None}
        if k == 'raise':
            return dict(outcome='raise', cex=cex, checks=[('formal_name does not raise', False)])
        k, msg = _call(eng, Client.create_bid_message, SEnum(Bid, b), name)
        if k == 'raise':
            return dict(outcome='raise', cex=cex, checks=[('create_bid_message does not raise', False)])
        msg = sstr.concat(eng, [msg, alert])
        msg, bits = flip_case(eng, msg, 'm')
        state['msg'] = msg
        # what Server.bidding_phase does with the text it takes from the seat's queue
        has_alert = sstr.contains(sstr.lower(msg), 'alert')
        if eng.decide(has_alert) if not isinstance(has_alert, bool) else has_alert:
            k, msg2 = _call(eng, Server.remove_alert_word, msg)
            if k == 'raise':
                return dict(outcome='raise', cex=cex, checks=[('remove_alert_word does not raise', False)])
        else:
            msg2 = msg
        k, back = _call(eng, MessageInterface.parse_bid, msg2, name)
        if k == 'raise':
            return dict(outcome='raise', cex=cex, checks=[(f'parse_bid understands the message ({back})', False)])
        return dict(outcome='call message', cex=cex, checks=[('parse_bid(message) is the call that was built', zenum(back) == b)],
                    sample=repr(msg))
    return hx.explore_case(path, dict(max_paths=20000))


def case_sequence(what):
    """two call messages and two card messages parsed one after the other in the same process (one seat): the second result
    must not depend on the first (a memo in a parser is part of the real code and is interpreted as such)"""
    from bridge_env import Bid, Card, Player
    from bridge_env.network_bridge.client import Client
    from bridge_env.network_bridge.socket_interface import MessageInterface

    def path(eng):
        eng.summarize.add(Card.rank_int_to_str.__func__)
        eng.summarize.add(Card.rank_str_to_int.__func__)
        b1, b2 = z3.Ints('call1 call2')
        eng.assume(z3.And(1 <= b1, b1 <= 38, 1 <= b2, b2 <= 38))
        r1, s1, r2, s2 = z3.Ints('rank1 suit1 rank2 suit2')
        eng.assume(z3.And(2 <= r1, r1 <= 14, 1 <= s1, s1 <= 4, 2 <= r2, r2 <= 14, 1 <= s2, s2 <= 4))
        cex = lambda m: {'kind': 'sequence', 'calls': [hx.mval(m, b1), hx.mval(m, b2)],
                         'cards': [[hx.mval(m, r1), hx.mval(m, s1)], [hx.mval(m, r2), hx.mval(m, s2)]]}
        name = 'North'
        back = None
        chk = []
        for b in ((b1, b2) if what == 'calls' else ()):
            k, msg = _call(eng, Client.create_bid_message, SEnum(Bid, b), name)
            k2, back = _call(eng, MessageInterface.parse_bid, msg, name) if k == 'ret' else ('raise', None)
            if 'raise' in (k, k2):
                return dict(outcome='raise', cex=cex, checks=[('call messages are built and parsed without exception', False)])
        if what == 'calls':
            return dict(outcome='second message', cex=cex,
                        checks=[('the second call message parses to the second call, whatever was parsed before', zenum(back) == b2)])
        for (r, s) in ((r1, s1), (r2, s2)):
            k, txt = _call(eng, Client.card_str, cardmod.sym_card(r, s))
            k2, cb = _call(eng, MessageInterface.parse_card, sstr.concat(eng, [name, ' plays ', txt]), Player.N) if k == 'ret' else ('raise', None)
            if 'raise' in (k, k2):
                return dict(outcome='raise', cex=cex, checks=chk + [('card messages are built and parsed without exception', False)])
        chk.append(('the second card message parses to the second card', z3.And(
            zint(cb.attrs['rank'] if isinstance(cb, SObj) else cb.rank) == r2, zenum(cb.attrs['suit'] if isinstance(cb, SObj) else cb.suit) == s2)))
        return dict(outcome='second message', cex=cex, checks=chk)
    return hx.explore_case(path, dict(max_paths=50000))


def case_card(notation):
    from bridge_env import Card, Player
    from bridge_env.network_bridge.client import Client
    from bridge_env.network_bridge.socket_interface import MessageInterface

    def path(eng):
        eng.summarize.add(Card.rank_int_to_str.__func__)
        eng.summarize.add(Card.rank_str_to_int.__func__)
        r, s, seat = z3.Int('rank'), z3.Int('suit'), z3.Int('seat')
        eng.assume(z3.And(2 <= r, r <= 14, 1 <= s, s <= 4, 1 <= seat, seat <= 4))
        card = cardmod.sym_card(r, s)
        state = {}

        def cex(m):
            return {'kind': 'card', 'rank': hx.mval(m, r), 'suit': hx.mval(m, s), 'seat': hx.mval(m, seat), 'notation': notation,
                    'message': text_of(m, state['msg']) if 'msg' in state else None}
        pl = SEnum(Player, seat)
        k, name = _call(eng, Player.formal_name.fget, pl)
        if k == 'raise':
            return dict(outcome='raise', cex=cex, checks=[('formal_name does not raise', False)])
        k, txt = _call(eng, Client.card_str if notation == 'rank-suit' else Card.__str__, card)
        if k == 'raise':
            return dict(outcome='raise', cex=cex, checks=[('card text builder does not raise', False)])
        msg = sstr.concat(eng, [name, ' plays ', txt])
        msg, bits = flip_case(eng, msg, 'm')
        state['msg'] = msg
        k, back = _call(eng, MessageInterface.parse_card, msg, eng.concretize_enum(pl))
        if k == 'raise':
            return dict(outcome='raise', cex=cex, checks=[(f'parse_card understands the message ({back})', False)])
        same = z3.And(zint(back.attrs['rank'] if isinstance(back, SObj) else back.rank) == r,
                      zenum(back.attrs['suit'] if isinstance(back, SObj) else back.suit) == s)
        return dict(outcome='card message', cex=cex, checks=[('parse_card(message) is the card that was built', same)], sample=repr(msg))
    return hx.explore_case(path, dict(max_paths=20000))


# --------------------------------------------------------------------------
# framing
# --------------------------------------------------------------------------
class StubSocket:
    """socket.recv contract: returns between 1 and n of the remaining bytes, or b'' at end of stream and ever after"""

    def __init__(self, data_chars, eof_at):
        self.chars = list(data_chars)
        self.eof_at = eof_at
        self.pos = 0
        self.calls = 0
        self.sent = []

    def install(self, eng):
        sock = self
        self.eng = eng
        self.chunks = []
        obj = SObj(type('FakeSock', (), {}), {})
        eng.attr_stubs[('FakeSock', 'recv')] = lambda e, o: symx.SymCallable(lambda n: sock.recv(n))
        eng.attr_stubs[('FakeSock', 'sendall')] = lambda e, o: symx.SymCallable(lambda d: sock.sent.append(d))
        return obj

    def recv(self, n):
        self.calls += 1
        if self.pos >= self.eof_at or self.pos >= len(self.chars):
            return b''
        # "however the bytes are split in transit": a caller that asks for more than one byte gets ANY number between 1 and
        # min(n, what is left) - a fork per size (a caller that reads byte by byte sees no choice)
        left = min(self.eof_at, len(self.chars)) - self.pos
        cap = left if not isinstance(n, int) else max(1, min(n, left))
        m = 1
        while m < cap and not self.eng.decide(z3.Bool(f'chunk{len(self.chunks)}_is_{m}')):
            m += 1
        self.chunks.append(m)
        cs = self.chars[self.pos:self.pos + m]
        self.pos += m
        return sstr.mk(cs, b'')


def case_framing(lens, eof_at):
    """messages of the given lengths (symbolic bytes, no CR) are sent with the real send_message into a buffer, which is
    then delivered to the real receive_message; the stream ends after eof_at bytes (None = after everything)"""
    from bridge_env.network_bridge.socket_interface import MessageInterface

    def path(eng):
        eng.loop_bound = sum(lens) + 2 * len(lens) + 4
        msgs = []
        for i, L in enumerate(lens):
            ch = [z3.Int(f'msg{i}_b{j}') for j in range(L)]
            for c in ch:
                eng.assume(z3.And(0 <= c, c < 128, c != 13))
            msgs.append(SStr(ch) if ch else '')
        out = StubSocket([], 0)
        so = out.install(eng)
        sender = SObj(MessageInterface, {'connection_socket': so})
        for m_ in msgs:
            k, _ = _call(eng, MessageInterface.send_message, sender, m_)
            if k == 'raise':
                return dict(outcome='raise', cex=lambda m: {'kind': 'framing'}, checks=[('send_message does not raise', False)])
        stream = []
        for d in out.sent:
            stream += sstr.chars_of(d)
        total = len(stream)
        cut = total if eof_at is None else min(eof_at, total)
        inp = StubSocket(stream, cut)
        si = inp.install(eng)
        recv = SObj(MessageInterface, {'connection_socket': si})

        def cex(m):
            return {'kind': 'framing', 'messages': [text_of(m, x) for x in msgs], 'eof_at': cut, 'chunks': list(inp.chunks)}
        chk = []
        framed = [2 + L for L in lens]
        got = 0
        pos = 0
        for i, m_ in enumerate(msgs):
            complete = pos + framed[i] <= cut
            calls_before = inp.calls
            try:
                k, r = _call(eng, MessageInterface.receive_message, recv)
            except symx.UnwindingAssertion:
                chk.append((f'receive_message terminates (message {i}, stream ends after {cut} bytes)', False))
                return dict(outcome='does not terminate', cex=cex, checks=chk)
            if complete:
                if k == 'raise':
                    chk.append((f'message {i} is received intact', False))
                    return dict(outcome='raise', cex=cex, checks=chk)
                e = sstr.eq(r, m_)
                chk.append((f'message {i} is received intact and in order', e))
                pos += framed[i]
                got += 1
            else:
                chk.append((f'end of stream inside/before message {i}: the receiver stops with an error', k == 'raise'))
                chk.append((f'... within (remaining bytes + 2) recv calls', inp.calls - calls_before <= (cut - pos) + 2))
                return dict(outcome='stopped at end of stream', cex=cex, checks=chk)
        if eof_at is not None:
            # one more receive after everything was delivered and the peer closed
            try:
                k, r = _call(eng, MessageInterface.receive_message, recv)
            except symx.UnwindingAssertion:
                chk.append(('receive_message terminates when the peer has closed between messages', False))
                return dict(outcome='does not terminate', cex=cex, checks=chk)
            chk.append(('peer closed between messages: the receiver stops with an error', k == 'raise'))
            return dict(outcome='stopped at end of stream', cex=cex, checks=chk)
        return dict(outcome='all received', cex=cex, checks=chk)
    return hx.explore_case(path)


# --------------------------------------------------------------------------
# board header and hands (table manager -> client)
# --------------------------------------------------------------------------
def case_header():
    from bridge_env import Hands, Player, Vul
    from bridge_env.network_bridge.client import Client
    from bridge_env.network_bridge.server import Server
    from harness import proto

    def path(eng):
        num, dealer, vul = z3.Int('board_number'), z3.Int('dealer'), z3.Int('vul')
        eng.assume(z3.And(1 <= num, num <= 9999, 1 <= dealer, dealer <= 4, 1 <= vul, vul <= 4))
        wires = {}
        proto.install(eng, wires)
        qs = {Player(p): proto.queue() for p in range(1, 5)}
        srv = SObj(Server, dict(sent_message_queues=qs, players_event={}))
        eng.stubs[Server._sync_event] = lambda e, a, k: None
        eng.stubs[Server.hand_to_str] = lambda e, a, k: 'S -. H -. D -. C -.'
        hands = SObj(Hands, {n: symx.Opaque('hand', i) for i, n in enumerate(('north', 'east', 'south', 'west'))})
        state = {}

        def cex(m):
            return {'kind': 'header', 'number': hx.mval(m, num), 'dealer': hx.mval(m, dealer), 'vul': hx.mval(m, vul),
                    'message': text_of(m, state['msg']) if 'msg' in state else None}
        k, _ = _call(eng, Server.deal, srv, SInt(num), SEnum(Player, dealer), SEnum(Vul, vul), hands, None)
        if k == 'raise':
            return dict(outcome='raise', cex=cex, checks=[(f'Server.deal does not raise ({_!r})', False)])
        chk = []
        for p in range(1, 5):
            items = qs[Player(p)].attrs['items']
            if len(items) != 2:
                return dict(outcome='bad', cex=cex, checks=[('every seat is queued a header and a hand message', False)])
        hdr = qs[Player.N].attrs['items'][0]
        same = []
        for p in range(2, 5):
            e = sstr.eq(qs[Player(p)].attrs['items'][0], hdr)
            same.append(e if not isinstance(e, bool) else z3.BoolVal(e))
        chk.append(('every seat gets the same header', z3.And(same)))
        state['msg'] = hdr
        k, back = _call(eng, Client.parse_board, hdr)
        if k == 'raise':
            return dict(outcome='raise', cex=cex, checks=chk + [(f'parse_board understands the header ({back})', False)])
        n2, d2, v2 = back
        chk.append(('parse_board(header) = configured board number, dealer, vulnerability',
                    z3.And(zint(n2) == num, zenum(d2) == dealer, zenum(v2) == vul)))
        return dict(outcome='header', cex=cex, checks=chk, sample=repr(hdr))
    return hx.explore_case(path, dict(max_paths=5000))


def small_and_sampled_shapes(tier):
    small = [s for s in itertools.product(range(5), repeat=4) if sum(s) <= 4]
    from harness import C14
    full = C14.all_shapes()
    if tier == 'thorough':
        return small, full
    rnd = random.Random(common.SEED + 19)
    must = [(13, 0, 0, 0), (0, 0, 0, 13), (4, 3, 3, 3), (0, 5, 0, 8), (1, 0, 12, 0)]
    return small[::3], must + rnd.sample([s for s in full if s not in must], 11)


def case_hand(shapes):
    from bridge_env import Card
    from bridge_env.network_bridge.client import Client
    from bridge_env.network_bridge.server import Server
    from harness import C14

    def one(shape):
        def path(eng):
            eng.summarize.add(Card.rank_int_to_str.__func__)
            eng.summarize.add(Card.rank_str_to_int.__func__)
            hand, desc = C14.explicit_hand(eng, shape)
            who = 'Dummy' if eng.decide(z3.Bool('is_dummy_message')) else 'West'
            state = {}

            def cex(m):
                return {'kind': 'hand', 'cards': [(s - 1) * 13 + hx.mval(m, r) - 2 for r, s in desc], 'who': who,
                        'message': text_of(m, state['msg']) if 'msg' in state else None}
            k, txt = _call(eng, Server.hand_to_str, hand)
            if k == 'raise':
                return dict(outcome='raise', cex=cex, checks=[('hand_to_str does not raise', False)])
            msg = sstr.concat(eng, [who, "'s cards : ", txt])
            state['msg'] = msg
            k, hs = _call(eng, Client.parse_cards, msg, who)
            if k == 'raise':
                return dict(outcome='raise', cex=cex, checks=[(f'parse_cards understands the message ({hs})', False)])
            k, back = _call(eng, Client.parse_hand, hs)
            if k == 'raise':
                return dict(outcome='raise', cex=cex, checks=[(f'parse_hand understands the hand text ({back})', False)])
            hset, hvec = back
            if not isinstance(hset, CardSet):
                hset = cardmod.cardset_from_cards(eng, hset)
            bits = [z3.Or([cardmod.card_idx(c) == i for c in hand]) if hand else z3.BoolVal(False) for i in range(52)]
            chk = [('parse_hand(parse_cards(message)) is the hand that was sent (voids included)',
                    z3.And([hset.bits[i] == bits[i] for i in range(52)])),
                   ('the 52-slot vector marks exactly those cards', z3.And([zint(hvec[i]) == z3.If(bits[i], 1, 0) for i in range(52)]))]
            return dict(outcome='hand message', cex=cex, checks=chk, sample=repr(msg))
        return path
    common.setup_path()
    res = None
    for shape in shapes:
        r = hx.explore_case(one(tuple(shape)), dict(max_paths=2000))
        if res is None:
            res = r
        else:
            for k, v in r.stats.items():
                if isinstance(v, (int, float)):
                    res.stats[k] = res.stats.get(k, 0) + v
            for k, v in r.outcomes.items():
                res.outcomes[k] = res.outcomes.get(k, 0) + v
            res.cex += r.cex
            res.samples += r.samples[:1]
            if r.status != 'ok' and res.status == 'ok':
                res.status, res.detail = r.status, f'shape {shape}: ' + r.detail
    res.samples = res.samples[:3]
    if res.status == 'ok':
        res.detail = f'{len(shapes)} suit shapes, outcomes {res.outcomes}'
    return res


def case_conninfo(L):
    from bridge_env import Player
    from bridge_env.network_bridge.client import Client
    from bridge_env.network_bridge.server import PlayerThread
    from harness import proto

    def path(eng):
        seat, version = z3.Int('seat'), z3.Int('version')
        eng.assume(z3.And(1 <= seat, seat <= 4, 0 <= version, version <= 9999))
        team = proto.free_text(eng, 'team', L)
        wires = {}
        proto.install(eng, wires)
        client = SObj(Client, dict(player=SEnum(Player, seat), team_name=team, PROTOCOL_VERSION=SInt(version),
                                   opponent_team_name=None, ip_address='x', port=0))
        w = proto.Wire()
        wires[id(client)] = w
        state = {}

        def cex(m):
            return {'kind': 'conninfo', 'seat': hx.mval(m, seat), 'version': hx.mval(m, version), 'team': text_of(m, team),
                    'message': text_of(m, state['msg']) if 'msg' in state else None}
        r = proto.run_until_blocked(eng, Client._connect, [client])
        if r[0] != 'blocked' or len(w.outbox) != 1:
            return dict(outcome='bad', cex=cex, checks=[('the client sends one connection request and waits for the reply', False)])
        line = w.outbox[0]
        # letter case of the fixed words is free; the quoted team text is symbolic anyway
        ch = sstr.chars_of(line)
        q1 = ch.index(34)
        q2 = len(ch) - 1 - ch[::-1].index(34)
        head, _ = flip_case(eng, sstr.mk(ch[:q1]), 'a')
        tail, _ = flip_case(eng, sstr.mk(ch[q2 + 1:]), 'b')
        line2 = sstr.concat(eng, [head, sstr.mk(ch[q1:q2 + 1]), tail])
        state['msg'] = line2
        k, back = _call(eng, PlayerThread.parse_connection_info, line2)
        if k == 'raise':
            return dict(outcome='raise', cex=cex, checks=[(f'parse_connection_info understands the request ({back})', False)])
        t2, p2, v2 = back
        e = sstr.eq(t2, team)
        return dict(outcome='connection request', cex=cex, sample=repr(line2),
                    checks=[('team text, seat and protocol version are read back as sent',
                             z3.And(e if not isinstance(e, bool) else z3.BoolVal(e), zenum(p2) == seat, zint(v2) == version))])
    return hx.explore_case(path, dict(max_paths=5000))


def cases(tier):
    cs = []
    from harness import C20
    cs.append((case_header, 'board header', {}))
    cs.append((case_sequence, 'two call messages parsed in sequence', dict(what='calls')))
    cs.append((case_sequence, 'two card messages parsed in sequence', dict(what='cards')))
    small, big = small_and_sampled_shapes(tier)
    n = 8 if tier != 'thorough' else 48
    for i in range(n):
        ch = (small + big)[i::n]
        if ch:
            cs.append((case_hand, f'hand messages, shapes chunk {i} ({len(ch)} shapes)', dict(shapes=ch)))
    for L in ((0, 1, 3) if tier != 'thorough' else (0, 1, 2, 3, 5)):
        cs.append((case_conninfo, f'connection request, team text of {L} characters', dict(L=L)))
    for l in ([(3, 3, 2), (1, 1, 0), (0, 0, 1)] if tier != 'thorough' else [(3, 3, 2), (1, 1, 0), (0, 0, 1), (5, 5, 1), (1, 4, 4)]):
        cs.append((C20.case_connect, f'admission dialogue texts (seated reply, Teams line), lengths {l}', dict(lens=l)))
    for a in ALERTS:
        cs.append((case_bid, f'call messages, alert suffix {a!r}', dict(alert=a)))
    for n in ('rank-suit', 'suit-rank'):
        cs.append((case_card, f'card messages, notation {n}', dict(notation=n)))
    shapes = [(0,), (3,), (2, 3), (0, 4)] if tier != 'thorough' else [(0,), (1,), (4,), (2, 3), (0, 4), (4, 0), (3, 3)]
    for lens in shapes:
        total = sum(lens) + 2 * len(lens)
        cs.append((case_framing, f'framing lengths {lens}, no end of stream', dict(lens=lens, eof_at=None)))
        for e in range(total + 1):
            cs.append((case_framing, f'framing lengths {lens}, end of stream after {e} bytes', dict(lens=lens, eof_at=e)))
    return cs


META = dict(
    level='model_checking',
    bounds=lambda tier: {'calls': '38 calls x 4 seats, every letter with a symbolic case bit, alert suffixes ' + repr(ALERTS),
                         'cards': '52 cards x 4 seats x 2 notations, symbolic case bits',
                         'headers': 'board number 1..9999 (symbolic digits), 4 dealers, 4 vulnerabilities, symbolic case bits',
                         'hands': 'hands of 0..4 cards (every suit shape) and ' + ('all 560' if tier == 'thorough' else '16 sampled') + ' 13-card suit shapes with symbolic ranks; "X\'s cards" and "Dummy\'s cards"',
                         'team names': 'texts of <= 3 (quick) / 5 symbolic characters: any code point except " CR LF',
                         'framing': 'streams of <= 2 messages of <= 4 symbolic ASCII bytes (no CR inside a message), end of stream at every byte position'},
    stubs=['socket.recv(n): returns the next byte, or b\'\' at end of stream and ever after; socket.sendall appends to a buffer', 'logger calls skipped'],
    assumptions=['regular expressions are executed by the sre-semantics model in engine/sstr.py (IGNORECASE on symbolic characters is ASCII-only)',
                 'non-ASCII bytes in framing are outside the claim (UTF-8 continuation bytes are never 0x0D)'],
    rule='feasible paths of builder -> parser over symbolic values and symbolic characters',
    explanation='each end\'s builder is executed symbolically and its text (symbolic characters) is fed to the other end\'s real parser',
    required_outcomes=['second message', 'call message', 'card message', 'all received', 'stopped at end of stream', 'header', 'hand message', 'connection request', 'accepted'],
)


def validate(tier):
    """translator validation: the interpreter in concrete mode against CPython on the functions this check encodes"""
    from engine import validate as v
    return v.run(['messages', 'regex_model'], tier)
