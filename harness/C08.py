"""C08 — the table manager's log records exactly what was played.

(a) Assembly, SYMEX: Server.run from its first line over n symbolic boards (environment stubbed, harness/serverrun.py);
    bidding_phase / playing_phase return ARBITRARY results (symbolic contract incl. passed out, auction, play history,
    tricks) and playing_phase CONSUMES the hands it is given; calc_score is an uninterpreted function of (contract, tricks).
    The k-th call of JsonLogWriter.write must carry the k-th board's id, dealer, ORIGINAL deal, the auction and play
    returned for that board, tricks, scores {declarer's side: s, other side: -s} with s = calc_score(that contract, those
    tricks); passed out => no play, no tricks, zeros; boards in order; writer closed after the last; then End of session.
(b) What the two phase methods return follows from the seats' messages by the rules: one iteration of each loop from an
    arbitrary state (harness/table.py, shared with C10) - the call / card applied and recorded is the one the seat sent.
    The rules themselves are C01-C07.
(c) Recorded sessions: the log of the real server is compared field by field with an independent replay of the seats' own
    messages through the reference rules (harness/transcripts.py); schedule independence = C09 (deadlock-freedom,
    single-producer/single-consumer channels, identical traces under a perturbed schedule - re-checked here per session).
"""
import json

import z3

from engine import cards as cardmod
from engine import common, hx, po, sstr, symx
from engine.symx import CardSet, Opaque, SBool, SEnum, SInt, SObj, SStr, Sym, zbool, zenum, zint
from harness import C10, C13, serverrun, sessions, table

PROPS = {'C08'}


def case_assembly(n, shared=False, props=None):
    """shared: every board is configured with the SAME Hands object (the same deal replayed under another dealer /
    vulnerability): what one board does to its cards must not reach the next"""
    props = props or PROPS
    from bridge_env import Bid, Contract, Hands, Pair, Player, Vul
    from bridge_env.data_handler.json_handler.writer import JsonLogWriter
    from bridge_env.network_bridge import server as server_mod
    from bridge_env.playing_phase import PlayingHistory
    Server = server_mod.Server

    def path(eng):
        boards = C13.sym_boards(eng, n)
        if shared:
            boards = [boards[0]] + [type(b)(hands=boards[0].hands, dealer=b.dealer, vul=b.vul, board_id=b.board_id, dda=None) for b in boards[1:]]
        originals = []
        for b in boards:
            originals.append({s: b.hands.attrs[s].copy() for s in ('north', 'east', 'south', 'west')})
        srv, env = serverrun.make_server(eng, boards, 'NS', 'EW')
        state = dict(board=0, results=[], writes=[], scores=[], dealt=[])

        def deal(e, a, k):
            state['board'] += 1
            state['deal_args'] = a
            cards = a[4] if len(a) > 4 else k.get('cards')
            state['dealt'].append({s: cards.attrs[s].copy() for s in ('north', 'east', 'south', 'west')} if isinstance(cards, SObj) else None)

        def bidding(e, a, k):
            b = state['board']
            vul = a[2] if len(a) > 2 else k['vul']
            po_ = e.decide(z3.Bool(f'board{b}_passed_out'))
            if po_:
                c = SObj(Contract, dict(final_bid=None, x=False, xx=False, vul=vul, declarer=None))
            else:
                bid, decl = z3.Int(f'board{b}_bid'), z3.Int(f'board{b}_declarer')
                e.assume(z3.And(1 <= bid, bid <= 35, 1 <= decl, decl <= 4))
                c = SObj(Contract, dict(final_bid=SEnum(Bid, bid), x=SBool(z3.Bool(f'board{b}_x')), xx=SBool(z3.Bool(f'board{b}_xx')),
                                       vul=vul, declarer=SEnum(Player, decl)))
            hist = [Opaque('auction', b)]
            state['results'].append(dict(contract=c, auction=hist, passed_out=po_, play=None, tricks=None))
            return c, hist

        def playing(e, a, k):
            b = state['board']
            hands = a[2]
            # the play consumes the hands it is given
            for s in ('north', 'east', 'south', 'west'):
                h = hands.attrs[s]
                h.bits = [z3.BoolVal(False)] * 52
                h.n = z3.IntVal(0)
            t = z3.Int(f'board{b}_tricks')
            e.assume(z3.And(0 <= t, t <= 13))
            ph = SObj(PlayingHistory, {'_history': [Opaque('trick', b)], '_contract': a[1]})
            tr = SInt(t)
            state['results'][-1].update(play=ph, tricks=tr, play_contract=a[1], play_hands=hands)
            return ph, tr

        def score(e, a, k):
            s = e.fresh('score')
            state['scores'].append((a[0], a[1], s))
            return SInt(s)

        def write(e, a, k):
            state['writes'].append(dict(k))
            env['order'].append('write')
        eng.stubs[Server.deal] = deal
        eng.stubs[Server.bidding_phase] = bidding
        eng.stubs[Server.playing_phase] = playing
        eng.stubs[server_mod.calc_score] = score
        eng.stubs[JsonLogWriter.write] = write
        real_close = JsonLogWriter.close

        def close(e, a, k):
            env['order'].append('close')
            return e.call_function.__self__.call_function(real_close, a, k) if False else None
        eng.stubs[JsonLogWriter.close] = close

        def cex(m):
            iv = lambda name, d: (lambda x: d if x is None else x)(hx.mval(m, z3.Int(name)))
            bv = lambda name: bool(hx.mval(m, z3.Bool(name)))
            return {'kind': 'assembly', 'n': n, 'props': sorted(props), 'shared': shared,
                    'passed_out': [bv(f'board{b}_passed_out') for b in range(1, n + 1)],
                    'declarers': [hx.mval(m, z3.Int(f'board{b}_declarer')) for b in range(1, n + 1)],
                    # everything the stubs returned, so that the real Server.run can be driven with the same results
                    'boards': [dict(passed_out=bv(f'board{b}_passed_out'), bid=iv(f'board{b}_bid', 1), declarer=iv(f'board{b}_declarer', 1),
                                    x=bv(f'board{b}_x'), xx=bv(f'board{b}_xx'), tricks=iv(f'board{b}_tricks', 0),
                                    dealer=iv(f'b{b - 1}_dealer', 1), vul=iv(f'b{b - 1}_vul', 1)) for b in range(1, n + 1)]}
        try:
            eng.call_function(Server.run, [srv], {})
        except symx.RaiseEx as e:
            return dict(outcome='raise', cex=cex, checks=[(f'C08: Server.run does not raise ({e.exc!r})', False)])
        chk = []
        W, R = state['writes'], state['results']
        for i, d in enumerate(state['dealt']):
            chk.append((f'[C10] board {i}: the cards dealt to the seats are the configured deal',
                        z3.And([d[s].bits[c] == originals[i][s].bits[c] for s in originals[i] for c in range(52)]) if d is not None and i < len(originals)
                        else z3.BoolVal(False)))
        chk.append(('one log record per board, in order', len(W) == n and len(R) == n))
        if len(W) == n and len(R) == n:
            for i, (w, r, b) in enumerate(zip(W, R, boards)):
                e_id = sstr.eq(w['board_id'], b.board_id)
                conds = [e_id if not isinstance(e_id, bool) else z3.BoolVal(e_id), zenum(w['dealer']) == zenum(b.dealer)]
                chk.append((f'board {i}: identifier and dealer as configured', z3.And(conds)))
                deal = w['deal']
                same_obj = deal is b.hands
                bits_ok = z3.And([deal.attrs[s].bits[c] == originals[i][s].bits[c] for s in originals[i] for c in range(52)]) \
                    if isinstance(deal, SObj) else z3.BoolVal(False)
                chk.append((f'board {i}: the deal written is the complete ORIGINAL deal (the play got a copy)', bits_ok))
                chk.append((f'board {i}: contract and auction are what the auction returned, vulnerability is the board\'s',
                            z3.And(z3.BoolVal(w['contract'] is r['contract'] and w['bid_history'] is r['auction']),
                                   zenum(r['contract'].attrs['vul']) == zenum(b.vul))))
                sc = w['scores']
                keys_ok = isinstance(sc, dict) and set(sc) == {Pair.NS, Pair.EW}
                chk.append((f'board {i}: scores keyed by the two sides', keys_ok))
                if r['passed_out']:
                    chk.append((f'board {i}: passed out => no play, no trick count, zero scores',
                                z3.And(z3.BoolVal(w['play_history'] is None and w['taken_trick_num'] is None),
                                       zint(sc[Pair.NS]) == 0, zint(sc[Pair.EW]) == 0) if keys_ok else False))
                else:
                    used = [s for (c, t, s) in state['scores'] if c is r['contract'] and t is r['tricks']]
                    chk.append((f'board {i}: the play got this board\'s contract and a COPY of the deal',
                                r.get('play_contract') is r['contract'] and r.get('play_hands') is not b.hands))
                    chk.append((f'board {i}: play history and tricks are what the play returned',
                                w['play_history'] is r['play'] and w['taken_trick_num'] is r['tricks']))
                    chk.append((f'board {i}: the score is computed from this board\'s contract and tricks', len(used) == 1))
                    if keys_ok and len(used) == 1:
                        s = used[0]
                        decl = zenum(r['contract'].attrs['declarer'])
                        ns_decl = decl % 2 == 1
                        chk.append((f'board {i}: declarer\'s side gets the score, the other side its negative',
                                    z3.And(zint(sc[Pair.NS]) == z3.If(ns_decl, s, -s), zint(sc[Pair.EW]) == z3.If(ns_decl, -s, s))))
            order = [x if isinstance(x, str) else (x[0], x[2]) for x in env['order']]
            last_write = max(i for i, x in enumerate(order) if x == 'write')
            ends = [i for i, x in enumerate(order) if x == ('put', Server.Message.END_SESSION)]
            nexts = [i for i, x in enumerate(order) if x == ('put', Server.Message.NEXT_BOARD)]
            closes = [i for i, x in enumerate(order) if x == 'close']
            chk.append(('the log is closed once, after the last record', len(closes) == 1 and closes[0] > last_write))
            chk.append(('every seat is sent End of session (after the last record), and "next board" exactly between boards',
                        len(ends) == 4 and min(ends) > last_write and len(nexts) == 4 * (n - 1)))
        tagged = [(f'C10: {l[6:]}', c) for l, c in chk if l.startswith('[C10] ') and 'C10' in props]
        tagged += [(f'C08: {l}', c) for l, c in chk if not l.startswith('[C10] ') and 'C08' in props]
        return dict(outcome='session assembled', cex=cex, checks=tagged)
    return hx.explore_case(path, dict(max_paths=20000))


def replay_assembly(c):
    """the assembly is replayed on the real server with bundled clients: any discrepancy between the log and the seats' own
    messages shows up in the session-level comparison"""
    from harness import transcripts
    out = []
    names = ('S7',) if c.get('shared') else ('S2', 'S4')
    for name in names:
        bad, r = transcripts.check_session(name, 0)
        out += [m for t, m in bad if any(p in t for p in c.get('props', ['C08']))]
    return bool(out), f'sessions {", ".join(names)} against the rules: ' + '; '.join(out[:3])


def _session_case(name):
    from harness import transcripts
    common.setup_path()
    res = common.CaseResult(name)
    r1 = sessions.record(name, common.SEED)
    bad, r = transcripts.check_session(name, common.SEED, result=r1)
    mine = [m for t, m in bad if 'C08' in t]
    res.stats = dict(paths=1, queries=0, steps=sum(len(v) for v in r.get('traces', {}).values()))
    res.outcomes = {'session log compared': 1}
    res.samples = [{'session': name, 'records': len(json.loads(r['log_text'])['logs']) if r.get('log_text') else 0, 'discrepancies': len(mine)}]
    res.detail = '; '.join(mine[:2])
    if not r.get('completed'):
        res.status = 'inconclusive'
        res.detail = 'session did not complete (see C09)'
        return res
    # schedule independence of the record: SPSC channels + identical traces and identical log under a perturbed schedule
    r2 = sessions.record(name, common.SEED, perturb=common.SEED * 3 + 2)
    prob = po.structure_checks(r['traces'])
    if not r2.get('completed') or po.signature(r['traces']) != po.signature(r2['traces']):
        prob.append('traces differ under a perturbed schedule')
    if prob:
        res.status = 'inconclusive'
        res.detail = 'trace validation failed: ' + '; '.join(prob[:2])
        return res
    if r2['log_text'] != r['log_text']:
        mine.append('the log differs between two schedules of the same session')
    if mine:
        res.cex.append({'kind': 'transcript', 'session': name, 'seed': common.SEED, 'props': ['C08'], 'discrepancies': mine[:5]})
        res.status = 'cex'
    return res


def cases(tier):
    ns = (1, 2) if tier != 'thorough' else (1, 2, 3)
    cs = [(case_assembly, f'assembly of the log by Server.run over {n} symbolic boards', dict(n=n)) for n in ns]
    cs.append((case_assembly, 'assembly of the log over two boards configured with the same Hands object', dict(n=2, shared=True)))
    cs += [c for c in C10.iteration_cases(PROPS, tier) if c[0] is not table.case_deal]
    for n in C10.SESSIONS['thorough' if tier == 'thorough' else 'quick']:
        cs.append((_session_case, f'log of session {n} against the seats\' own messages and the rules', dict(name=n)))
    return cs


META = dict(
    level='model_checking',
    bounds=lambda tier: {'assembly': 'Server.run over 1..2 (quick) / 1..3 symbolic boards; every board passed out or played with symbolic contract (35 bids x flags x 4 declarers), tricks 0..13',
                         'phases': 'one iteration of the auction loop / play loop from any state (as C10)',
                         'sessions': ', '.join(C10.SESSIONS['thorough' if tier == 'thorough' else 'quick']) + ': log compared with a replay of the seats\' messages through the reference rules; two schedules'},
    stubs=['see harness/serverrun.py; bidding_phase/playing_phase: arbitrary results, the play empties the hands it is given; calc_score: uninterpreted; JsonLogWriter.write: captures its arguments (its text is C12\'s subject)'],
    assumptions=['the rules (contract, declarer, tricks, score from calls and cards) are C01-C07', 'schedule independence rests on C09\'s analysis; here traces and logs of two schedules are compared per session'],
    rule='feasible paths of Server.run / one loop iteration; plus field-by-field comparison of recorded logs',
    explanation='symbolic execution of the assembly code with arbitrary phase results, loop-cut iterations, and an independent log oracle for recorded sessions',
    required_outcomes=['session assembled', 'call relayed', 'card relayed', 'session log compared'],
)


def validate(tier):
    """translator validation: the interpreter in concrete mode against CPython on the functions this check encodes"""
    from engine import validate as v
    return v.run(['messages', 'plays', 'auctions', 'scores'], tier)
