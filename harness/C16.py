"""C16 — IMP conversion is the official scale, odd and monotone, for every integer difference.

Encoded from source: bridge_env.score.point_difference_to_imps, score_to_imp.
The point difference is an unconstrained z3 Int; the threshold loop is unrolled up to 25 times with an
unwinding assertion.  Oracle: the WBF IMP table, as data, independent of the module's _IMPS_LIST.
"""
import z3

from engine import hx, symx
from engine.symx import SInt, zint

# lower bound of the band awarding k IMPs (k = 1..24); official WBF scale
OFFICIAL = (20, 50, 90, 130, 170, 220, 270, 320, 370, 430, 500, 600, 750, 900, 1100, 1300, 1500, 1750,
            2000, 2250, 2500, 3000, 3500, 4000)


def ref_abs(a):
    r = z3.IntVal(0)
    for k, lo in enumerate(OFFICIAL):
        r = z3.If(a >= lo, k + 1, r)
    return r


def ref(d):
    a = z3.If(d >= 0, d, -d)
    return z3.If(d >= 0, ref_abs(a), -ref_abs(a))


def _call(eng, fn, *args):
    try:
        return 'ret', eng.call_function(fn, list(args), {})
    except symx.RaiseEx as e:
        return 'raise', e.exc


def case_scale(sign, loop_bound=25):
    from bridge_env import score

    def path(eng):
        d = z3.Int('d')
        eng.assume(d >= 0 if sign > 0 else d < 0)
        kind, r = _call(eng, score.point_difference_to_imps, SInt(d))
        if kind == 'raise':
            return dict(outcome='raise', checks=[('no exception', False)],
                        cex=lambda m: {'kind': 'scale', 'd': hx.mval(m, d)})
        rz = zint(r)
        checks = [('equals official scale', rz == ref(d)), ('within [-24, 24]', z3.And(rz >= -24, rz <= 24))]
        return dict(outcome='ret', checks=checks, sample=z3.simplify(rz).sexpr()[:200],
                    cex=lambda m: {'kind': 'scale', 'd': hx.mval(m, d), 'got': hx.mval(m, rz),
                                   'want': hx.mval(m, ref(d))})
    return hx.explore_case(path, dict(loop_bound=loop_bound))


def case_odd(loop_bound=25):
    from bridge_env import score

    def path(eng):
        d = z3.Int('d')
        k1, r1 = _call(eng, score.point_difference_to_imps, SInt(d))
        k2, r2 = _call(eng, score.point_difference_to_imps, SInt(-d))
        if 'raise' in (k1, k2):
            return dict(outcome='raise', checks=[('no exception', False)],
                        cex=lambda m: {'kind': 'odd', 'd': hx.mval(m, d)})
        return dict(outcome='ret', checks=[('f(-d) == -f(d)', zint(r2) == -zint(r1))],
                    cex=lambda m: {'kind': 'odd', 'd': hx.mval(m, d), 'f(d)': hx.mval(m, zint(r1)),
                                   'f(-d)': hx.mval(m, zint(r2))})
    return hx.explore_case(path, dict(loop_bound=loop_bound))


def case_monotone(region, loop_bound=25):
    """a <= b  =>  f(a) <= f(b); region splits the (a, b) plane so that the cases run in parallel"""
    from bridge_env import score

    def path(eng):
        a, b = z3.Int('a'), z3.Int('b')
        eng.assume(a <= b)
        if region == 'nn':
            eng.assume(b < 0)
        elif region == 'np':
            eng.assume(z3.And(a < 0, b >= 0))
        else:
            eng.assume(a >= 0)
        k1, r1 = _call(eng, score.point_difference_to_imps, SInt(a))
        k2, r2 = _call(eng, score.point_difference_to_imps, SInt(b))
        if 'raise' in (k1, k2):
            return dict(outcome='raise', checks=[('no exception', False)],
                        cex=lambda m: {'kind': 'monotone', 'a': hx.mval(m, a), 'b': hx.mval(m, b)})
        return dict(outcome='ret', checks=[('monotone', zint(r1) <= zint(r2)),
                                           ('second of two conversions in a row still equals the official scale', zint(r2) == ref(b))],
                    cex=lambda m: {'kind': 'monotone', 'a': hx.mval(m, a), 'b': hx.mval(m, b),
                                   'f(a)': hx.mval(m, zint(r1)), 'f(b)': hx.mval(m, zint(r2))})
    return hx.explore_case(path, dict(loop_bound=loop_bound))


def case_two_scores(sign):
    from bridge_env import score

    def path(eng):
        a, b = z3.Int('a'), z3.Int('b')
        eng.assume(a + b >= 0 if sign > 0 else a + b < 0)
        k, r = _call(eng, score.score_to_imp, SInt(a), SInt(b))
        if k == 'raise':
            return dict(outcome='raise', checks=[('no exception', False)],
                        cex=lambda m: {'kind': 'two', 'a': hx.mval(m, a), 'b': hx.mval(m, b)})
        return dict(outcome='ret', checks=[('score_to_imp(a,b) == scale(a+b)', zint(r) == ref(a + b))],
                    cex=lambda m: {'kind': 'two', 'a': hx.mval(m, a), 'b': hx.mval(m, b), 'got': hx.mval(m, zint(r)),
                                   'want': hx.mval(m, ref(a + b))})
    return hx.explore_case(path, dict(loop_bound=25))


def case_reference_sanity():
    """the oracle itself: odd, monotone, bounded, 0 below 20 and 24 from 4000 (pure z3 on the data)"""
    def build():
        a, b = z3.Ints('a b')
        yield 'ref odd', [ref(-a) != -ref(a)], 'unsat', lambda m: {'kind': 'oracle'}
        yield 'ref monotone', [a <= b, ref(a) > ref(b)], 'unsat', lambda m: {'kind': 'oracle'}
        yield 'ref 0 below 20', [a > -20, a < 20, ref(a) != 0], 'unsat', lambda m: {'kind': 'oracle'}
        yield 'ref 24 from 4000', [a >= 4000, ref(a) != 24], 'unsat', lambda m: {'kind': 'oracle'}
        yield 'twin: band 13 reachable', [ref(a) == 13], 'sat', None
    return hx.plain_query_case(build)


def crosshair_case(timeout=60):
    """second opinion on the real byte-code (advisory: a timeout decides nothing)"""
    import os
    import subprocess
    import sys
    import tempfile
    from engine import common
    res = common.CaseResult('crosshair')
    src = f'''
import sys
sys.path.insert(0, {common.REPO!r})
from bridge_env.score import point_difference_to_imps, score_to_imp
OFFICIAL = {OFFICIAL!r}
def _ref(d: int) -> int:
    a = abs(d)
    k = 0
    for i, lo in enumerate(OFFICIAL):
        if a >= lo:
            k = i + 1
    return k if d >= 0 else -k
def _scale(d: int) -> int:
    """
    post: _ == _ref(d) and -24 <= _ <= 24
    """
    return point_difference_to_imps(d)
def _odd(d: int) -> bool:
    """
    post: _
    """
    return point_difference_to_imps(-d) == -point_difference_to_imps(d)
def _two(a: int, b: int) -> bool:
    """
    post: _
    """
    return score_to_imp(a, b) == _ref(a + b)
'''
    d = tempfile.mkdtemp(prefix='c16ch')
    f = os.path.join(d, 'c16_contracts.py')
    open(f, 'w').write(src)
    try:
        p = subprocess.run([sys.executable, '-m', 'crosshair', 'check', '--report_all', '--per_condition_timeout',
                            str(timeout), f], capture_output=True, text=True, timeout=timeout * 4 + 60)
        out = p.stdout + p.stderr
    except subprocess.TimeoutExpired:
        out = 'crosshair timed out'
    finally:
        import shutil
        shutil.rmtree(d, ignore_errors=True)
    res.detail = out.strip()[-600:]
    confirmed = out.count('Confirmed over all paths')
    res.outcomes = {'crosshair_confirmed': confirmed}
    res.stats = dict(paths=0, queries=0)
    res.samples = [{'crosshair_output': res.detail}]
    if 'error' in out.lower() and 'false when calling' in out:
        # a CrossHair counterexample: extract is best effort; the SYMEX cases decide, this is advisory
        res.detail = 'crosshair reports a counterexample: ' + res.detail
    return res


def cases(tier):
    cs = [(case_reference_sanity, 'oracle-sanity', {}),
          (case_scale, 'scale d>=0', dict(sign=1)), (case_scale, 'scale d<0', dict(sign=-1)),
          (case_odd, 'odd', {}),
          (case_two_scores, 'two-score sum>=0', dict(sign=1)), (case_two_scores, 'two-score sum<0', dict(sign=-1)),
          (case_monotone, 'monotone a<=b<0', dict(region='nn')),
          (case_monotone, 'monotone a<0<=b', dict(region='np')),
          (case_monotone, 'monotone 0<=a<=b', dict(region='pp'))]
    if tier == 'thorough':
        cs.append((crosshair_case, 'crosshair-second-opinion', dict(timeout=60)))
    return cs


META = dict(
    level='model_checking',
    bounds={'point difference': 'any integer (unbounded z3 Int)',
            'loop unrolling': '25 iterations with unwinding assertion (the guard imps < 24 allows at most 24)'},
    stubs=[],
    assumptions=['z3 mathematical integers model Python int exactly',
                 'the WBF IMP table embedded in the harness is the official scale'],
    rule='one symbolic path per (sign, band) of the threshold scan; distinct = pairwise different path conditions',
    explanation='bounded symbolic execution of the real source; every path discharged by z3 (unsat) against an '
                'independent table; unbounded in the magnitude of the difference',
    required_outcomes=['ret'],
)


def validate(tier):
    """translator validation: the interpreter in concrete mode against CPython on the functions this check encodes"""
    from engine import validate as v
    return v.run(['scores'], tier)
