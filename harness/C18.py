"""C18 — PBN export is read back by the PBN parser, one game per board.

Encoded from source: PbnWriter.write_board_result/write_tag_pair/write_line/write_header, Hands.to_pbn, Vul.pbn_format,
Contract.is_passed_out, Player.__str__, PbnParser.parse_all/parse_stream/extract_content/parse_board/parse_board_settings,
Hands.convert_pbn, Vul.str_to_vul.

m consecutive board results are written by the real writer into a capturing file; one of them (each position in turn) is
symbolic: dealer, vulnerability, contract (passed out or a contract text), declarer, result 0..13, board number 1..999,
and two free-text fields (event/site/names) over the property's alphabet; the text (symbolic characters) is then parsed
by the real parser.  Assume/guarantee: the hand codec of the deal line is replaced by its contract (C14); str(contract)
is replaced by 'some text of 2..5 characters over [1-7CDHSNTX]' (its exact form is C15's business).
"""
import z3

from engine import common, hx, sstr, symx
from engine.symx import SBool, SEnum, SInt, SObj, SStr, Sym, zenum, zint
from harness import jsonio, pbn

FIELDS = ('event', 'site', 'west_player', 'north_player', 'east_player', 'south_player')
TAGS = ['Event', 'Site', 'Date', 'Board', 'West', 'North', 'East', 'South', 'Dealer', 'Vulnerable', 'Deal', 'Scoring',
        'Declarer', 'Contract', 'Result']


class FakeDate:
    pass


def make_result(eng, i, symbolic, sym_fields, codec, vul_fixed=None, num_range=(1, 999)):
    from bridge_env import Bid, Contract, Player, Vul
    from bridge_env.data_handler.pbn_handler.writer import Scoring

    def iv(name, lo, hi, default):
        if symbolic:
            v = z3.Int(f'g{i}_{name}')
            eng.assume(z3.And(lo <= v, v <= hi))
            return v
        return z3.IntVal(default)
    dealer, num = iv('dealer', 1, 4, 1 + i % 4), iv('board', num_range[0], num_range[1], i + 1)
    vul = z3.IntVal(vul_fixed) if (symbolic and vul_fixed) else iv('vul', 1, 4, 1 + (i + 2) % 4)
    passed_out = eng.decide(z3.Bool(f'g{i}_passed_out')) if symbolic else (i % 2 == 1)
    texts = {}
    for k, f in enumerate(FIELDS):
        texts[f] = pbn.free_text(eng, f'g{i}_{f}', 2) if (symbolic and f in sym_fields) else f'{f[:2]}{i}'
    if passed_out:
        contract = SObj(Contract, dict(final_bid=None, x=False, xx=False, vul=SEnum(Vul, vul), declarer=None))
        tricks, ctext, declarer = None, None, None
    else:
        declarer = iv('declarer', 1, 4, 2)
        contract = SObj(Contract, dict(final_bid=SEnum(Bid, iv('bid', 1, 35, 7)), x=False, xx=False, vul=SEnum(Vul, vul),
                                       declarer=SEnum(Player, declarer)))
        tricks = SInt(iv('tricks', 0, 13, 8))
        if symbolic:
            L = 2
            for cand in (2, 5):
                if eng.decide(z3.Int(f'g{i}_contract_len') == cand):
                    L = cand
                    break
            else:
                raise symx.Infeasible()
            ch = [z3.Int(f'g{i}_contract_{j}') for j in range(L)]
            for c in ch:
                eng.assume(z3.Or([c == ord(a) for a in '1234567CDHSNTX']))
                eng.declare_domain(c, [ord(a) for a in '1234567CDHSNTX'])
            ctext = SStr(ch)
        else:
            ctext = '3NT'
    args = dict(event=texts['event'], site=texts['site'], date=SObj(FakeDate, {}), board_num=SInt(num), west_player=texts['west_player'],
                north_player=texts['north_player'], east_player=texts['east_player'], south_player=texts['south_player'],
                dealer=SEnum(Player, dealer), deal=codec.deal, scoring=Scoring.IMP, contract=contract, taken_tricks=tricks)
    ghost = dict(dealer=dealer, vul=vul, num=num, passed_out=passed_out, texts=texts, ctext=ctext, declarer=declarer, tricks=tricks,
                 contract=contract, codec=codec)
    return args, ghost


def str_eq(a, b):
    e = sstr.eq(a, b) if isinstance(a, (str, SStr)) and isinstance(b, (str, SStr)) else False
    return e if not isinstance(e, bool) else z3.BoolVal(e)


def case_export(m, sym_i, sym_fields, header, vul=None, num_range=(1, 999)):
    from bridge_env import Contract, Player, Vul
    from bridge_env.data_handler.pbn_handler.parser import PbnParser
    from bridge_env.data_handler.pbn_handler.writer import PbnWriter

    def path(eng):
        eng.summarize.add(Player.__str__)
        jsonio.install(eng)
        codecs = [pbn.DealCodec(eng, f'd{i}') for i in range(m)]
        pbn.install_codecs(eng, codecs)
        eng.attr_stubs[('FakeDate', 'strftime')] = lambda e, o: symx.SymCallable(lambda fmt: '2024.01.02')
        recs = [make_result(eng, i, i == sym_i, sym_fields, codecs[i], vul, num_range) for i in range(m)]
        ghosts = [g for _, g in recs]
        by_contract = {id(g['contract']): g for g in ghosts}

        def contract_str(e, args, kw):
            g = by_contract.get(id(args[0]))
            if g is None or g['ctext'] is None:
                raise symx.Unsupported('str() of an unknown contract')
            return g['ctext']
        eng.stubs[Contract.__str__] = contract_str

        def cex(mm):
            ev = lambda z: hx.mval(mm, z)
            g = ghosts[sym_i]
            return {'kind': 'export', 'm': m, 'symbolic_record': sym_i, 'header': header,
                    'record': dict(dealer=ev(g['dealer']), vul=ev(g['vul']), board=ev(g['num']), passed_out=g['passed_out'],
                                   declarer=None if g['declarer'] is None else ev(g['declarer']),
                                   tricks=None if g['tricks'] is None else ev(zint(g['tricks'])),
                                   contract_text=None if g['ctext'] is None else pbn.text_of(mm, g['ctext']),
                                   texts={k: pbn.text_of(mm, v) for k, v in g['texts'].items()})}
        f = jsonio.new_file()
        w = SObj(PbnWriter, {'writer': f})
        try:
            if header:
                eng.call_function(PbnWriter.write_header, [w], {})
            for a, _ in recs:
                eng.call_function(PbnWriter.write_board_result, [w], a)
        except symx.RaiseEx as e:
            return dict(outcome='writer raised', cex=cex, checks=[(f'the writer does not raise ({e.exc!r})', False)])
        chunks = f.attrs['chunks']
        chk = [('no written line exceeds 255 characters (names short enough to fit)', all(len(sstr.chars_of(c)) <= 255 for c in chunks))]
        lines = pbn.split_lines(chunks)
        try:
            games = eng.call_function(PbnParser.parse_all, [eng.construct(PbnParser, [], {}), lines], {})
        except symx.RaiseEx as e:
            return dict(outcome='parser raised', cex=cex, checks=chk + [(f'parse_all reads the export ({e.exc!r})', False)])
        chk.append(('one game per board result, in the order written', isinstance(games, list) and len(games) == m))
        if isinstance(games, list) and len(games) == m:
            for i, (game, g) in enumerate(zip(games, ghosts)):
                chk.append((f'game {i}: exactly the fifteen mandatory tags', isinstance(game, dict) and sorted(game) == sorted(TAGS)))
                if not (isinstance(game, dict) and sorted(game) == sorted(TAGS)):
                    continue
                t = g['texts']
                want = {'Event': t['event'], 'Site': t['site'], 'Date': '2024.01.02', 'West': t['west_player'], 'North': t['north_player'],
                        'East': t['east_player'], 'South': t['south_player'], 'Scoring': 'IMP'}
                conds = [str_eq(game[k], v) for k, v in want.items()]
                seat = lambda z: z3.If(z == 1, ord('N'), z3.If(z == 2, ord('E'), z3.If(z == 3, ord('S'), ord('W'))))
                dl = sstr.chars_of(game['Dealer'])
                conds.append(z3.And(sstr.zc(dl[0]) == seat(g['dealer'])) if len(dl) == 1 else z3.BoolVal(False))
                vt = game['Vulnerable']
                conds.append(z3.Or(z3.And(g['vul'] == 1, str_eq(vt, 'None')), z3.And(g['vul'] == 2, str_eq(vt, 'NS')),
                                   z3.And(g['vul'] == 3, str_eq(vt, 'EW')), z3.And(g['vul'] == 4, str_eq(vt, 'All'))))
                if g['passed_out']:
                    conds += [str_eq(game['Declarer'], ''), str_eq(game['Contract'], 'Pass'), str_eq(game['Result'], '')]
                else:
                    dc = sstr.chars_of(game['Declarer'])
                    conds.append(z3.And(sstr.zc(dc[0]) == seat(g['declarer'])) if len(dc) == 1 else z3.BoolVal(False))
                    conds.append(str_eq(game['Contract'], g['ctext']))
                    try:
                        rv = sstr.to_int(eng, game['Result'])
                        conds.append(zint(rv) == zint(g['tricks']))
                    except symx.RaiseEx:
                        conds.append(z3.BoolVal(False))
                try:
                    bv = sstr.to_int(eng, game['Board'])
                    conds.append(zint(bv) == g['num'])
                except symx.RaiseEx:
                    conds.append(z3.BoolVal(False))
                chk.append((f'game {i}: the tags carry the values that were written (PBN spellings; Pass/empty when passed out)', z3.And(conds)))
        try:
            sets = eng.call_function(PbnParser.parse_board_settings, [eng.construct(PbnParser, [], {}), lines], {})
        except symx.RaiseEx as e:
            return dict(outcome='parser raised', cex=cex, checks=chk + [(f'parse_board_settings reads the export ({e.exc!r})', False)])
        chk.append(('one board setting per result', isinstance(sets, list) and len(sets) == m))
        if isinstance(sets, list) and len(sets) == m:
            for i, (bs, g) in enumerate(zip(sets, ghosts)):
                ok_types = (isinstance(bs.dealer, SEnum) and bs.dealer.cls is Player or isinstance(bs.dealer, Player)) and \
                           (isinstance(bs.vul, SEnum) and bs.vul.cls is Vul or isinstance(bs.vul, Vul))
                chk.append((f'setting {i}: dealer and vulnerability are value objects', ok_types))
                if ok_types:
                    try:
                        bn = sstr.to_int(eng, bs.board_id)
                        num_ok = zint(bn) == g['num']
                    except symx.RaiseEx:
                        num_ok = z3.BoolVal(False)
                    chk.append((f'setting {i}: dealer, vulnerability, board number recovered',
                                z3.And(zenum(bs.dealer) == g['dealer'], zenum(bs.vul) == g['vul'], num_ok)))
                chk.append((f'setting {i}: every seat gets its own hand back', pbn.same_hands(bs.hands, g['codec'])))
        return dict(outcome='export read back', cex=cex, checks=chk)
    return hx.explore_case(path, dict(max_paths=20000))


def cases(tier):
    """the symbolic result's vulnerability is fixed per case (all four values are covered across the cases) and the board
    number range is split, only to spread the work over processes"""
    E, S, W, N, EA, SO = 'event', 'site', 'west_player', 'north_player', 'east_player', 'south_player'
    combos = [(1, 0, (E, N), True, v, (1, 999)) for v in (1, 2, 3, 4)]
    combos += [(2, 1, (S, W), False, v, (1, 99)) for v in (2, 4)]
    combos += [(2, 0, (EA, SO), True, v, (100, 999)) for v in (1, 3)]
    combos += [(3, 1, (E,), False, 4, (1, 9))]
    if tier == 'thorough':
        combos += [(2, 1, (S, W), False, v, (1, 99)) for v in (1, 3)] + [(2, 0, (EA, SO), True, v, (100, 999)) for v in (2, 4)]
        combos += [(3, i, (N, S), i == 0, v, (1, 99)) for i in (0, 1, 2) for v in (1, 2, 3, 4)]
    return [(case_export, f'{m} results, result {i} symbolic (vulnerability {v}, board number {r[0]}..{r[1]}), free text in {f}, header={h}',
             dict(m=m, sym_i=i, sym_fields=f, header=h, vul=v, num_range=r)) for m, i, f, h, v, r in combos]


META = dict(
    level='model_checking',
    bounds=lambda tier: {'results': 'sequences of 1..3 board results, one of them symbolic (each position in turn): dealer, vulnerability, board number 1..999, passed out or contract text of 2 or 5 characters, declarer, result 0..13',
                         'text': 'two free-text fields of 2 symbolic characters each over letters, digits, space and . , - _ / ( ) \' + # : (every field takes its turn)',
                         'line limit': 'all written lines of these results are checked; write_line\'s splitting of longer strings is outside (the property assumes each tag pair fits on one line)'},
    stubs=['capturing file', 'date.strftime -> fixed text', 'hand codec of the deal line -> injective 16-character tokens (contract discharged by C14)',
           'str(contract) -> symbolic text over [1-7CDHSNTX] of length 2 or 5 (exact form: C15)'],
    assumptions=['regular expressions by the sre-semantics model (engine/sstr.py)'],
    rule='feasible paths of writer -> parser on a symbolic board result',
    explanation='the real PBN writer is executed symbolically and its text (symbolic characters) is fed to the real PBN parser',
    required_outcomes=['export read back'],
)


def validate(tier):
    """translator validation: the interpreter in concrete mode against CPython on the functions this check encodes"""
    from engine import validate as v
    return v.run(['pbn_files', 'regex_model'], tier)
