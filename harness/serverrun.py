"""Server.run executed symbolically from its first line with the environment stubbed (shared by C13, C08, C10).

Stubs (each is the documented contract of what it replaces):
  socket.bind/listen/accept   -> no-op / a fake connection
  PlayerThread(...)           -> a fake thread whose start() seats the next conforming client (writes the seat table the way
                                 PlayerThread._connect does - that function itself is C20's subject) and sets the admission event
  Event / Barrier / Queue     -> recording fakes (no blocking: the schedule is C09's subject)
  open(path, 'w')             -> capturing file;  json.dumps -> opaque token (harness/jsonio.py)
  time.sleep                  -> no-op;  copy.deepcopy -> structural copy
  Server.bidding_phase / Server.playing_phase / Server.deal / calc_score -> supplied by the harness (arbitrary results, or raise)
"""
import threading
import time

import z3

from engine import symx
from engine.symx import SEnum, SInt, SObj, SStr, Sym
from harness import jsonio, proto


class FakeThread:
    pass


class FakeSock:
    pass


class FakeBarrier:
    pass


def make_server(eng, boards, team_ns='NS', team_ew='EW'):
    """returns (server SObj, env dict with the recording fakes)"""
    import queue as _queue
    from bridge_env import Player
    from bridge_env.network_bridge import server as server_mod
    Server, PlayerThread = server_mod.Server, server_mod.PlayerThread
    env = dict(files=[], events=[], threads=[], barrier_waits=[0], order=[])
    wires = {}
    proto.install(eng, wires)
    jsonio.install(eng)
    arrival = [Player.N, Player.E, Player.S, Player.W]

    def new_event(e, args, kw):
        ev = proto.event()
        env['events'].append(ev)
        return ev
    eng.stubs[threading.Event] = new_event
    eng.stubs[server_mod.Event] = new_event
    if hasattr(server_mod, 'Barrier'):
        eng.stubs[server_mod.Barrier] = lambda e, a, k: SObj(FakeBarrier, {})
    eng.attr_stubs[('FakeBarrier', 'wait')] = lambda e, o: symx.SymCallable(
        lambda: (env['barrier_waits'].__setitem__(0, env['barrier_waits'][0] + 1), env['order'].append('barrier')))
    eng.stubs[time.sleep] = lambda e, a, k: None
    eng.stubs[server_mod.time.sleep] = lambda e, a, k: None

    def open_stub(e, args, kw):
        f = jsonio.new_file()
        env['files'].append(f)
        return f
    eng.stubs[open] = open_stub

    def new_thread(e, args, kw):
        th = SObj(FakeThread, dict(kw=kw, alive=True, started=False))
        env['threads'].append(th)
        return th
    eng.stubs[PlayerThread] = new_thread

    def th_start(e, o):
        def start():
            o.attrs['started'] = True
            k = len([t for t in env['threads'] if t.attrs['started']]) - 1
            seat = arrival[k % 4]
            o.attrs['kw']['team_names'][seat] = team_ns if seat.value % 2 else team_ew
            ev = o.attrs['kw']['event_thread']
            ev.attrs['log'].append('set')
        return symx.SymCallable(start)
    eng.attr_stubs[('FakeThread', 'start')] = th_start
    eng.attr_stubs[('FakeThread', 'is_alive')] = lambda e, o: symx.SymCallable(lambda: True)
    eng.attr_stubs[('FakeThread', 'join')] = lambda e, o: symx.SymCallable(lambda: env['order'].append('join'))
    eng.attr_stubs[('FakeSock', 'bind')] = lambda e, o: symx.SymCallable(lambda a: None)
    eng.attr_stubs[('FakeSock', 'listen')] = lambda e, o: symx.SymCallable(lambda n: None)
    eng.attr_stubs[('FakeSock', 'accept')] = lambda e, o: symx.SymCallable(lambda: (proto.conn(proto.Wire()), ('x', 0)))
    eng.attr_stubs[('FakeSock', 'close')] = lambda e, o: symx.SymCallable(lambda: None)
    qs_out = {p: proto.queue() for p in Player}
    qs_in = {p: proto.queue() for p in Player}
    # every put is also logged in one global order (to see what happens before / after the log is closed)
    def q_put(e, o):
        def put(item):
            o.attrs['items'].append(item)
            env['order'].append(('put', o.attrs.get('name'), item))
        return symx.SymCallable(put)
    eng.attr_stubs[('FakeQueue', 'put')] = q_put
    for p in Player:
        qs_out[p].attrs['name'] = f'to_{p.name}'
        qs_in[p].attrs['name'] = f'from_{p.name}'
    srv = SObj(Server, dict(ip_address='x', port=0, _socket=SObj(FakeSock, {}), board_settings=boards, output_file_path='out.json',
                            sent_message_queues=qs_out, received_message_queues=qs_in, players_event={p: proto.event() for p in Player}))
    env['queues_out'], env['queues_in'] = qs_out, qs_in
    return srv, env
