#!/bin/bash
# seedcheck.sh <seed dir name> <property id> [tier]: confirm a seeded change (tests pass, demo fails with it / passes without)
# in a scratch worktree, then run the property's check against it.  Never touches /repo's working tree.
set -u
NAME=$1; PID=$2; TIER=${3:-quick}
SRC=/verif/seeded/$NAME
WT=$(mktemp -d /tmp/seedwt.XXXXXX)
git -C /repo worktree add -q --detach "$WT" HEAD
cd "$WT"
PYTHONPATH=$WT /venv/bin/python "$SRC/demo.py" > "$WT/.demo0" 2>&1; D0=$?
if ! git apply "$SRC/patch.diff"; then echo "PATCH DOES NOT APPLY"; cd /; git -C /repo worktree remove --force "$WT"; exit 3; fi
PYTHONPATH=$WT timeout 900 /venv/bin/python -m pytest -q -p no:cacheprovider -x > "$WT/.tests" 2>&1; T=$?
PYTHONPATH=$WT timeout 300 /venv/bin/python "$SRC/demo.py" > "$WT/.demo1" 2>&1; D1=$?
echo "demo without change: exit $D0; tests with change: exit $T ($(tail -1 $WT/.tests)); demo with change: exit $D1"
cd /verif
VERIF_REPO="$WT" VERIF_EVIDENCE_DIR="$WT/.ev" VERIF_REPLAY_OUT="$WT/.replay" timeout 3400 python3-vt /verif/tools/check.py "$PID" "$TIER" > "$WT/.out" 2>&1
echo "check $PID $TIER exit=$? violations=$(grep -c '^VIOLATION' $WT/.out)"
grep -E '^(REPRODUCED|INCONCLUSIVE|OK)' "$WT/.out" | head -3 | cut -c1-500
cd /; git -C /repo worktree remove --force "$WT"
