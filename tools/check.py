#!/usr/bin/env python3
"""check.py <property id> <quick|thorough> — registered command of every check.

Exit 0: property held on everything explored; exit 1 (+ VIOLATION line): a counterexample was found by the
solver AND reproduced against the real code; exit 2: inconclusive (engine limitation, solver unknown,
counterexample that does not reproduce, vacuous harness)."""
import importlib
import os
import sys
import time

HERE = os.path.dirname(os.path.abspath(__file__))
sys.path.insert(0, os.path.dirname(HERE))


def main():
    pid, tier = sys.argv[1], (sys.argv[2] if len(sys.argv) > 2 else os.environ.get('VERIF_TIER', 'quick'))
    from engine import common
    t0 = time.time()
    common.setup_path()
    mod = importlib.import_module('harness.' + pid)
    if hasattr(mod, 'main'):
        sys.exit(mod.main(tier))
    cases = mod.cases(tier)
    results = common.run_cases(cases)
    meta = dict(mod.META)
    if callable(meta.get('extra_cov')):
        meta['extra_cov'] = meta['extra_cov'](tier, results)
    validated = 0
    val_err = None
    if hasattr(mod, 'validate'):
        try:
            validated = mod.validate(tier)
        except Exception as e:            # the interpreter or the regex model disagrees with CPython
            val_err = f'{type(e).__name__}: {e}'
    code = common.finish(pid, tier, meta['level'], results, t0, meta['bounds'] if not callable(meta['bounds'])
                         else meta['bounds'](tier), meta['stubs'], meta['assumptions'], meta['rule'],
                         meta['explanation'], extra_cov=meta.get('extra_cov'), validated=validated,
                         required_outcomes=meta.get('required_outcomes'))
    if val_err is not None:
        # A violation that was replayed on the real code stands on its own feet; a pass does not: without an agreeing
        # translator nothing is decided.
        if code == 1:
            print(f'NOTE: translator validation also failed ({val_err}); the violations above were reproduced on the real code')
        else:
            print(f'INCONCLUSIVE: translator validation failed: {val_err}')
            code = 2
    sys.exit(code)


if __name__ == '__main__':
    main()
