#!/bin/bash
# intake.sh <round> <property id> [tier]: copy a sub-agent's seeded change from /tmp/<round>/<id> to seeded/<round>-<id>/ and
# confirm + check it with seedcheck.sh (development tool)
set -u
R=$1; ID=$2; TIER=${3:-quick}
SRC=/tmp/$R/$ID; DST=/verif/seeded/$R-$ID
mkdir -p "$DST"
git -C "$SRC" diff -- bridge_env > "$DST/patch.diff"
cp "$SRC/demo.py" "$DST/demo.py"; cp "$SRC/notes.md" "$DST/notes.md" 2>/dev/null
echo "patch: $(grep -c '^[+-][^+-]' $DST/patch.diff) changed lines in $(grep -c '^diff' $DST/patch.diff) file(s)"
bash /verif/tools/seedcheck.sh "$R-$ID" "$ID" "$TIER"
