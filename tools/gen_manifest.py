#!/usr/bin/env python3
"""Regenerates MANIFEST.json from the table below (claimed = a harness module exists)."""
import json
import os

V = os.path.dirname(os.path.dirname(os.path.abspath(__file__)))
SYMEX = 'bounded symbolic execution of the real source (AST interpreter over z3 terms); one z3 query per path against an independent reference; counterexamples replayed on CPython'
CHECKS = {
 'C16': dict(level='model_checking', technique='symbolic execution (z3) of point_difference_to_imps/score_to_imp with unbounded Int input, loop unwound 25x with unwinding assertion; CrossHair second opinion in thorough tier',
             text='Every path of the real threshold scan is discharged by z3 against the official IMP table for an unconstrained integer; oddness, monotonicity (two-copy) and the two-score form are queries over the same symbolic runs. Unbounded in magnitude; bounded only by the unwinding bound, which is checked.',
             note='Trusted: the AST interpreter (validated by replay of counterexamples and concrete-mode runs), z3, the embedded WBF table.', ref='§4 C16'),
 'C07': dict(level='model_checking', technique='symbolic execution (z3) of calc_score/calc_bid_score/Contract.is_vul over one fully symbolic contract; closed-form oracle; two-call history-independence query',
             text='The whole finite domain (bids x flags x vulnerability x declarer x tricks, plus passed-out) is covered symbolically: every feasible path of the real scoring code is one unsat query against an independent closed form; a second family of queries scores two symbolic contracts in sequence so that module-level state cannot make a score depend on history.',
             note='Trusted: interpreter, z3, the closed-form oracle (landmark-checked against published figures).', ref='§4 C07'),
 'C15': dict(level='model_checking', technique='symbolic execution (z3) of every converter pair on one symbolic value per domain; two-copy queries for injectivity and card order',
             text='Complete finite domains covered symbolically: each feasible path of str/int/name conversions in both directions is one unsat query for the identity; injectivity and order-vs-index are two-copy queries over the same symbolic runs.',
             note='Trusted: interpreter (counterexamples replayed on CPython), z3, enum members identified by integer value.', ref='§4 C15'),
 'C01': dict(level='model_checking', technique='symbolic execution (z3) of BiddingPhase.take_bid: one inductive step from an arbitrary invariant state (history as z3 Array of symbolic length) + BMC of K symbolic calls from the real constructor against an explicit-history oracle + two auctions side by side (non-interference)',
             text='Inductive step over all states satisfying the printed invariant (auctions of any length) and all 38 calls: accepted iff legal, 38-slot vector = legal set, rejected call leaves every field identical; base case from the real constructor; BMC cross-checks the summary-state reading of legality against the true history up to K calls. Counterexamples to induction are turned into call sequences from the dealer and replayed on the real class.',
             note='Trusted: interpreter (replay-validated), z3, the reference legality rules in harness/auction.py and replay/r_auction.py; numpy vector modelled as 38 terms.', ref='§4 C01'),
 'C02': dict(level='model_checking', technique='symbolic execution (z3): inductive step of take_bid (turn, history append, per-seat lists, exact end) + arbitrary ended state refuses every call unchanged + BMC from the constructor with explicit per-prefix oracle',
             text='Same harnesses as C01 with the rotation/termination assertions: turn = dealer + number of calls, call appended to the common list and to the caller\'s list only, FINISHED iff four opening passes or three passes after a bid/double/redouble, any call on an ended auction raises and changes nothing (state otherwise arbitrary).',
             note='Trusted: as C01. Per-seat list CONTENT equality with the common history is explicit only in the BMC (K calls); the inductive step proves the append-to-the-right-list fact.', ref='§4 C02'),
 'C03': dict(level='model_checking', technique='symbolic execution (z3) of take_bid + contract(): inductive step with ghost first-to-name table, BMC (K>=6) against an oracle that scans the explicit history for the true declarer',
             text='At FINISHED the interpreted contract() equals last bid, doubling status, board vulnerability and the first-to-name entry; before the end it is None; the table, flags and last bid follow the reference step from any invariant state; BMC covers both-partners/both-sides-named and superseded-double auctions up to K calls against the explicit history.',
             note='Trusted: as C01.', ref='§4 C03'),
 'C04': dict(level='model_checking', technique='symbolic execution (z3) of PlayingPhaseWithHands.play_card_by_player: inductive step from an arbitrary invariant state with hands as 52-bit sets; calc_highest summarised; BMC of the first tricks; exact history synthesis for counterexamples; two boards side by side (non-interference)',
             text='One play from any invariant state (any trick 1..13, 0..3 cards on the table, any contract, any hands, any card/seat): turn passes left inside a trick; on the fourth card the reference winner leads, exactly its side is credited, trick number advances, history gains (actual leader, four cards in order); constructor base case; has_done lemma; BMC from the real constructor over the first plays. Counterexamples are turned into a deal plus plays (earlier tricks synthesised by z3) and replayed.',
             note='Trusted: interpreter (replay-validated), z3, the reference trick-winner rule; Set[Card] modelled as 52 Booleans + maintained size term (over-approximation).', ref='§4 C04'),
 'C05': dict(level='model_checking', technique='symbolic execution (z3): same inductive step with acceptance/refusal/conservation assertions on bit-sets; observer variant as product step; pre-states include the finished board (all 52 cards played); BMC partition check against the dealt hands; two boards side by side',
             text='Accepted iff seat on turn and card in that hand; refusal is ValueError and leaves all 5x52 bits, table, counts, history identical; accepted play moves exactly that bit from the hand to the played set; BMC: after every play hands and played cards partition the symbolic deal; single-seat observer: own/dummy plays checked against the known hand, refused plays change nothing.',
             note='Trusted: as C04.', ref='§4 C05'),
 'C06': dict(level='model_checking', technique='symbolic execution (z3) of available_cards and its wrappers on an arbitrary 52-bit hand and symbolic led card; example player with random.choice as arbitrary element',
             text='The set comprehension of the real source is evaluated over 52 symbolic membership bits: result equals the follow-suit rule bit for bit, is a subset of the hand, non-empty when the hand is; state wrappers from any invariant board state; RandomPlay.play returns a member of that set for every choice.',
             note='Trusted: interpreter, z3, stub contract of random.choice.', ref='§4 C06'),
 'C11': dict(level='model_checking', technique='symbolic execution (z3): product inductive step of PlayingPhaseWithHands and ObservedPlayingPhase on the same symbolic play from related states (all four observer seats); the bundled network clients\' local replicas of recorded sessions compared with the table manager\'s log',
             text='(a) full-information game and single-seat observer, related pre-states, same symbolic (card, seat): whenever the full game accepts, the observer accepts and both agree again on contract, declarer, turn, trick number, leader, table, history, counts, own hand and dummy view (any trick incl. 13, exact history synthesis for counterexamples). (b),(c) every bundled client of the recorded sessions completes, and its local auction and observer of every board equal the log (contract, declarer, calls, trick leaders and cards, counts); all schedules of those sessions complete by C09.',
             note='Network-client clause bounded to the recorded sessions and bundled policies. Trusted: as C04.', ref='§4 C11'),
 'C14': dict(level='model_checking', technique='symbolic execution (z3) of every deal encoder/decoder pair: 4x52-bit symbolic deals for binary/numpy/JSON; per-suit-shape explicit hands with symbolic ranks through the real PBN string builder and regex parser; deal line with codec contract, written twice from one object built by the real constructor; decode freshness (two decodes are independent sets); dealer with shuffle = arbitrary bijection',
             text='decode(encode(deal)) == deal and canonical form for all deals incl. partial ones (one query over 208 Booleans) for the tuple, numpy and JSON encodings; the PBN hand codec is executed per suit shape with symbolic ranks (characters symbolic) through the real regular expression; the deal line for every first seat and every present/empty pattern under the codec contract; the random dealer for every permutation.',
             note='Trusted: interpreter, z3, regex model (sre semantics, differential-tested), numpy model; quick tier covers 48 of the 560 suit shapes, thorough all.', ref='§4 C14'),
 'C09': dict(level='model_checking', engine='po', technique='SMT partial-order encoding (z3) of the recorded synchronisation traces of the real Server/PlayerThread/Client threads: all interleavings, deadlock query, completion and seeded-bug twins; forced-schedule replay on the real threads',
             text='For each listed session every interleaving of the 9 real threads is covered by one z3 query over order variables and per-thread cuts (Event/Queue/Barrier/join/socket semantics as enabledness constraints): no reachable cut where every unfinished thread is parked at a disabled blocking operation. The traces come from the real code at every run and are validated (SPSC channels, identical under a perturbed schedule, run completed with End of session to all and a complete log). A sat model is forced on the real threads and reported only if the real server then stalls.',
             note='Bounded to the listed sessions (<= 3 boards, bundled policies, two arrival orders). Trusted: the primitive semantics in engine/po.py, z3, the in-memory socket stub. Found the lapping deadlock of the original flag protocol (now fixed by 14a3277) and reproduces it by forced schedule.', ref='§2.3, §4 C09'),
 'C20': dict(level='model_checking', technique='symbolic execution (z3) of PlayerThread._connect co-simulated with the real Client._connect from an arbitrary seat table; SMT partial-order encoding of recorded admission sessions (deadlock + seat-table race queries) with forced-schedule replay',
             text='One admission step for every seat table, seat, version 0..999 and team text of the listed lengths: refused iff wrong version / seat taken / partner team differs; refusal = one ERROR line, closed connection, event set, table unchanged; acceptance = only that seat changes, event set after the table write, client accepts the dialogue and records the opponents. Sessions with invalid requests interleaved (A1, A2): all interleavings of the recorded traces deadlock-free, no seat-table access can change sides, outcomes as specified.',
             note='Admitted clients are assumed conforming. Sessions bounded to A1/A2 (one board). Trusted: interpreter, regex model, PO primitive semantics.', ref='§4 C20'),
 'C19': dict(level='model_checking', technique='symbolic execution (z3) of each message builder followed by the other end\'s real parser over symbolic values, symbolic characters and case bits (sre-semantics regex model); framing with a nondeterministic socket stub and symbolic end-of-stream position, unwinding assertion for termination',
             text='Calls (38 x 4 seats x case bits x alert suffixes), cards (52 x 4 x 2 notations x case bits), board headers (1..9999), hands (0..4 cards all shapes; 13-card shapes with symbolic ranks; own and dummy messages), connection request and admission replies (team text symbolic) are built by one end\'s real code and parsed by the other end\'s real code to the original value. Framing: <= 2 messages of <= 4 symbolic bytes are received intact and in order; at every end-of-stream position the receiver raises within remaining+2 recv calls (a looping receiver trips the unwinding assertion and is replayed on a counting socket).',
             note='Trusted: interpreter, regex model (ASCII case folding for symbolic characters), z3. Quick tier samples 16 of the 560 13-card shapes.', ref='§4 C19'),
 'C12': dict(level='model_checking', replay_py='python3-vt', technique='symbolic execution (z3) of JsonLogWriter -> (json layer stubbed by its contract, framing parsed by the real json) -> published schema -> JsonParser on a symbolic record inside lists of 0..3 records; field-and-type comparison',
             text='Every feasible path of the real writer and the real parser over a fully symbolic record (seats, vulnerability, contract incl. passed out and all doubling states, 52-bit deal, auction, 0/1/2/13 tricks, scores, names with unconstrained code points, optional dda) at every position of lists of up to 3 records: the text is one JSON document, validates against the schema read from the repository, and every BoardLog/BoardSetting field equals what was written with the library\'s value types.',
             note='Assumes json.loads(json.dumps(d)) == d; call/card/contract text codecs are replaced by opaque tokens (their inverses are C15). Replay runs the real writer, real json, jsonschema and the real parser.', ref='§4 C12'),
 'C13': dict(level='model_checking', technique='symbolic execution (z3) of Server.run from its first line with stubbed environment, symbolic boards and a symbolic abort point (board, phase) x every exception class the phases can end with (7); captured file parsed by the real json module',
             text='Every path of the real run() (its with/try structure and the real JsonLogWriter interpreted) over 1..3 symbolic boards where the auction or the play of board k raises Exception or KeyboardInterrupt: the output file is closed, is one JSON document and holds exactly boards 1..k-1, each schema-valid. Replay runs the real server with four bundled clients over in-memory sockets, injects the exception and parses the file from disk.',
             note='The position inside the auction/play is not visible to run(); that an offending action surfaces as an exception of bidding_phase/playing_phase is by reading (they raise before touching the writer).', ref='§4 C13'),
 'C18': dict(level='model_checking', technique='symbolic execution (z3) of PbnWriter.write_board_result followed by the real PbnParser (sre-semantics regex model) on the written text with symbolic characters; one symbolic board result inside sequences of 1..3',
             text='The real writer is executed on a symbolic result (dealer, vulnerability, board number, passed out or contract text, declarer, result, two free-text fields over the property alphabet incl. adjacent spaces) and its text is parsed by the real parser: one game per result in order, exactly the fifteen tags with the written values (All / empty / Pass conventions), board settings recovered, all lines <= 255.',
             note='Deal-line hand codec and str(contract) are replaced by their contracts (C14, C15). write_line splitting of over-long strings is outside (excluded by the property).', ref='§4 C18'),
 'C17': dict(level='model_checking', replay_py='python3-vt', technique='symbolic execution (z3): JsonBoardSettingWriter -> schema -> JsonParser on a symbolic board; PBN import files rendered from layouts with symbolic content and parsed by the real PbnParser (sre-semantics regex model)',
             text='JSON: as C12 for board settings (0..3 boards, one symbolic incl. dda). PBN: for each layout (blank-line runs incl. blank/tab lines, LF/CRLF, tag order, additional tags, % headers, table rows) a symbolic board (dealer, vulnerability in all seven accepted spellings, first seat, id of symbolic characters incl. adjacent spaces) is read back by the real parser with the same deal, dealer, vulnerability and id, one board per game in order.',
             note='Layouts are a finite list (4 fixed + seeded); the content inside a layout is symbolic. PBN comments are not generated. Deal-line hand codec by contract (C14).', ref='§4 C17'),
 'C10': dict(level='model_checking', technique='symbolic execution (z3) of Server.deal and of ONE iteration of the auction and play relay loops cut from the source (arbitrary invariant state, symbolic call/card message built by the client code); message-by-message comparison of recorded session byte streams with an independent protocol transcript',
             text='Main thread: for any state of the auction / play and any call / card message, the queues of the four seats receive exactly the turn announcement, the relayed text once for every seat but the sending connection (declarer when dummy plays), and dummy\'s own hand for the three other seats exactly after the opening lead; Server.deal queues the configured header and each seat\'s own hand. Seat threads and composition: every message of every connection of the recorded sessions equals the transcript computed from the boards, the seats\' own messages and the rules.',
             note='The seat-thread code is covered through recorded sessions only (bounded to those sessions); schedule independence of the streams rests on C09. hand_to_str is an injective token here (its text: C19).', ref='§4 C10'),
 'C08': dict(level='model_checking', technique='symbolic execution (z3) of Server.run over symbolic boards with arbitrary phase results (assembly of the log record), loop-cut iterations of the auction/play loops, and field-by-field comparison of recorded session logs with a replay of the seats\' messages through reference rules',
             text='Server.run interpreted from source: the k-th record carries the k-th board\'s id, dealer, original deal (the play consumes a copy), the auction/play/tricks returned for that board, scores = +/- calc_score(that contract, those tricks) by declarer\'s side, passed out => no play/tricks/zero scores, writer closed after the last record, End of session afterwards. One iteration of each phase loop: the call/card applied and recorded is the one the seat sent. Recorded sessions: log equals an independent replay; identical under two schedules.',
             note='The rules themselves are C01-C07; JSON text is C12; schedule independence rests on C09 (re-checked per session by trace/log comparison).', ref='§4 C08'),
}


def main():
    props = [json.loads(l) for l in open(os.path.join(V, 'properties.jsonl'))]
    checks, na = [], []
    reasons = json.load(open(os.path.join(V, 'tools', 'not_applicable.json'))) if os.path.exists(os.path.join(V, 'tools', 'not_applicable.json')) else {}
    for p in props:
        pid = p['id']
        if pid in CHECKS and os.path.exists(os.path.join(V, 'harness', pid + '.py')):
            c = CHECKS[pid]
            checks.append({
                'property_id': pid,
                'quick_cmd': f'python3-vt tools/check.py {pid} quick',
                'thorough_cmd': f'python3-vt tools/check.py {pid} thorough',
                'evidence_file': f'/verif/evidence/{pid}.json',
                'replay_cmd_template': f'VERIF_REPO=/repo {c.get("replay_py", "/venv/bin/python")} replay/replay.py {pid} {{path}}',
                'engine': c.get('engine', 'symex'),
                'level_claimed': {'category': c['level'], 'text': c['text'], 'design_ref': c['ref']},
                'level_note': c['note'],
                'technique': c['technique']})
        else:
            na.append({'property_id': pid, 'reason': reasons.get(pid, 'check not built yet (build in progress; see DESIGN.md)')})
    m = {'version': 1,
         'setup_cmd': 'python3-vt -c "import z3, numpy, jsonschema; print(z3.get_version_string())"',
         'hooks': {'guard': 'BRIDGE_ENV_VERIF',
                   'enable': 'no source hooks are needed: instrumentation is applied from the harness process (module globals of bridge_env.network_bridge.server are rebound to recording wrappers; sockets are in-memory fakes)',
                   'baseline_off_cmd': 'cd /repo && /venv/bin/python -m pytest -ra -q -p no:cacheprovider --timeout=900 --continue-on-collection-errors',
                   'source_commits': [], 'add_only': True},
         'engines': [{'name': 'symex', 'path': 'engine/symx.py', 'serves_properties': sorted(k for k, c in CHECKS.items() if c.get('engine', 'symex') == 'symex'),
                      'kind_free_text': SYMEX},
                     {'name': 'po', 'path': 'engine/po.py', 'serves_properties': sorted(k for k, c in CHECKS.items() if c.get('engine') == 'po'),
                      'kind_free_text': 'SMT partial-order encoding of per-thread synchronisation traces recorded from the real threads (engine/netrec.py): order variable per operation, cut per thread, enabledness constraints; deadlock/race queries; forced-schedule replay'}],
         'checks': checks, 'not_applicable': na,
         'notes': 'Exit codes: 0 held within the stated bounds; 1 VIOLATION (solver counterexample reproduced on the real code); 2 inconclusive (never a pass). VERIF_REPO selects the tree under test (default /repo).'}
    json.dump(m, open(os.path.join(V, 'MANIFEST.json'), 'w'), indent=1)
    print(len(checks), 'checks;', len(na), 'not claimed')


if __name__ == '__main__':
    main()
