#!/bin/bash
# run_all.sh <tier> [ids...]: run the registered checks one after the other in /verif against /repo; prints one line per check
TIER=${1:-quick}; shift
IDS=${@:-C01 C02 C03 C04 C05 C06 C07 C08 C09 C10 C11 C12 C13 C14 C15 C16 C17 C18 C19 C20}
cd "$(dirname "$0")/.."
for id in $IDS; do
  s=$(date +%s)
  python3-vt tools/check.py $id $TIER > /tmp/runall_$id.out 2>&1; rc=$?
  echo "$id exit=$rc $(( $(date +%s) - s ))s $(grep -E '^(OK|VIOLATION|INCONCLUSIVE|NOTE|KNOWN)' /tmp/runall_$id.out | head -2 | cut -c1-160 | tr '\n' '|')"
done
