#!/bin/bash
# mutcheck.sh <patch.diff> <tier> <property ids...>: apply a patch to a scratch worktree of /repo and run checks on it
# (development tool; never touches /repo's working tree; evidence goes to a scratch directory)
set -u
PATCH=$(realpath "$1"); TIER=$2; shift 2
WT=$(mktemp -d /tmp/mutwt.XXXXXX)
git -C /repo worktree add -q --detach "$WT" HEAD
if ! git -C "$WT" apply "$PATCH"; then echo "PATCH DOES NOT APPLY"; git -C /repo worktree remove --force "$WT"; exit 3; fi
for id in "$@"; do
  VERIF_REPO="$WT" VERIF_EVIDENCE_DIR="$WT/.ev" VERIF_REPLAY_OUT="$WT/.replay" timeout 3000 python3-vt /verif/tools/check.py "$id" "$TIER" > "$WT/.out.$id" 2>&1
  echo "== $id exit=$? $(grep -c '^VIOLATION' "$WT/.out.$id") violation line(s)"
  grep -E '^(VIOLATION|INCONCLUSIVE|REPRODUCED|OK)' "$WT/.out.$id" | head -5
  grep -B2 -A6 'REPRODUCED' "$WT/.out.$id" | head -12
done
git -C /repo worktree remove --force "$WT"
